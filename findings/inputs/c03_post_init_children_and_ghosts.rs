#[map(B)]
#[into_existing(B)]
#[child_parents(a: TA, a.b: TB)]
#[ghosts(a.b@g: {1}, a@h: {2}, k: {3})]
struct A { t1: i32, #[child(a)] a1: i32, #[parent] p: P }
