#[map(i32)]
enum E { #[literal(1)] #[pattern(2)] V, #[literal(3)] W }
