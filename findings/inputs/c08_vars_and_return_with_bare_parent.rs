#[try_into(B, E| vars(v: {1}), return todo!())] struct A { x: i32, #[parent] p: P }
