#[owned_into(B)]
#[child_parents(a: TA, a.b: TB)]
struct A { #[child(a)] a1: i32, t1: i32, #[child(a.b)] b1: i32, #[child(a.b)] b2: i32 }
