#[into(B)]
#[child_parents(a.b: X)]
struct A { #[child(a.b)] x: i32 }
