#[map(i32)]
enum E { #[pattern(1..=2)] V, #[literal(3)] W }
