#[owned_try_into_existing(Entity as {}, E)]
struct EntityDto(#[ref_try_into(test)] i32);
