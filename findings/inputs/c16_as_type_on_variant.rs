#[map(B)]
enum E { #[as_type(i32)] V }
