#[from(B)]
struct A { #[parent([parent(x)] p)] q: Q }
