#[into_existing(i32)]
enum E { #[literal(1)] V }
