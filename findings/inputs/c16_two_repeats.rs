#[map(B)]
struct A { #[repeat] #[map(~.clone())] x: i32, #[repeat] #[map(~.clone())] y: i32 }
