#[into_existing(Entity as {})]
struct EntityDto(#[into_existing(~.clone())] i32);
