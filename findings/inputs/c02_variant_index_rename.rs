#[from_owned(E2)]
enum E { #[type_hint(as ())] V { #[from(1)] x: i32, #[from(0)] y: i32 } }
