#[owned_into(B as ())]
struct A { #[parent] p: P, x: i32 }
