#[try_from_owned(B, Err<T>)]
struct A { a: i32 }
