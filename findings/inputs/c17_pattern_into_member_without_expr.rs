#[map(i32| _ => todo!())]
enum A { #[literal(1)] V, #[pattern(2..=3)] #[into(2)] W }
