#[owned_into_existing(Entity as {})]
struct EntityDto(#[ref_into(test)] i32);
