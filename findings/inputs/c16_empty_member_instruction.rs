#[from_owned(B)]
struct A { #[from()] x: i32 }
