#[from_owned(B<'a>)]
#[ref_into(B<'a>)]
struct A<T> { x: T }
