#[into(E2)]
enum E { #[type_hint(as {})] V(#[into(~.clone())] i32) }
