#[owned_into_existing(B as ())]
struct A { #[ghost] g: i32, #[into_existing(~ + 1)] x: i32, y: i32 }
