#[try_into(B)]
struct A { x: i32 }
