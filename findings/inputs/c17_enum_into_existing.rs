#[owned_into_existing(B)]
enum A { V, W(i32) }
