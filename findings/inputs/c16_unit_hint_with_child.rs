#[into(B as Unit)]
#[child_parents(c: C)]
struct A { #[child(c)] x: i32 }
