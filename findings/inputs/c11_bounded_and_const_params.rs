#[map(B<T>)]
struct A<T: Clone, const N: usize = 3> where T: Copy { x: T }
