#[owned_into(B)]
#[child_parents(a: X)]
enum E { V { #[child(a)] x: i32 } }
