#[map(E2)]
enum E { #[type_hint(as {})] V(i32) }
