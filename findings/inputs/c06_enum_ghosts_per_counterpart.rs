#[from_owned(A)]
#[from_owned(B)]
#[ghosts(A| X: { E::V })]
#[ghosts(B| Y: { E::V })]
enum E { V }
