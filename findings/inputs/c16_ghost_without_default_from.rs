#[from(B)]
struct A { #[ghost] x: i32 }
