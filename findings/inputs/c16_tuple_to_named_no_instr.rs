#[map(Entity as {})]
struct EntityDto(i32);
