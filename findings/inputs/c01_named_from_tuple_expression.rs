#[from_owned(B as ())]
struct A { #[from(~ * 2)] x: i32, y: i32 }
