#[into(Entity as {})]
struct EntityDto(#[into(~.clone())] i32);
