#[into(B)]
#[ghosts(k: {3})]
struct A { t1: i32, #[parent] p: P }
