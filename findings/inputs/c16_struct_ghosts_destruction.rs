#[owned_into(B)]
#[ghosts(V(x): { 1 })]
struct A { a: i32 }
