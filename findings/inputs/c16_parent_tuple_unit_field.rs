#[into(B)]
struct A(#[parent] P, i32);
