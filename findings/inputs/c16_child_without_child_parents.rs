#[into(B)]
struct A { #[child(a)] x: i32 }
