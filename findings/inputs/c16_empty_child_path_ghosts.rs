#[into(B)]
#[ghosts(a@x: { 1 })]
struct A { y: i32 }
