#[from_owned(B)]
#[ghosts(0: { E::V })]
enum E { V }
