#[owned_into_existing(B as ())]
struct A { #[child(c)] x: i32 }
