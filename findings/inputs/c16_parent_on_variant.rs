#[into(B)]
enum E { #[parent] V }
