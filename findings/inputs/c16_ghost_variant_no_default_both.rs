#[map(B)]
enum E { #[ghost] V, W }
