
// ===== appended by /verif to a scratch copy of attr.rs (Kani twins of the lookup contracts; cfg(kani) only) =====
// Every harness here is BOUNDED: lists of at most 2 entries.  The unbounded statement is the Verus proof (units/U2.rs);
// these twins run the compiled code, give counterexamples, and stand in when a Verus anchor is lost.
#[cfg(kani)]
mod verif_kani {
    use super::*;

    fn tp(tag: u8) -> TypePath {
        TypePath { span: Span::call_site(), path: TokenStream::new(), path_str: if tag == 0 { "A".to_string() } else { "B".to_string() }, generics: None, nameless_tuple: false }
    }
    // container_ty selector: 0 = default entry, 1 = dedicated to A (the queried counterpart), 2 = dedicated to B
    fn ct(sel: u8) -> Option<TypePath> {
        match sel { 0 => None, 1 => Some(tp(0)), _ => Some(tp(1)) }
    }
    fn any_sel() -> u8 {
        let s: u8 = kani::any();
        kani::assume(s < 3);
        s
    }
    fn any_kind() -> Kind {
        let k: u8 = kani::any();
        kani::assume(k < 6);
        match k { 0 => Kind::OwnedInto, 1 => Kind::RefInto, 2 => Kind::FromOwned, 3 => Kind::FromRef, 4 => Kind::OwnedIntoExisting, _ => Kind::RefIntoExisting }
    }
    fn kidx(k: Kind) -> usize {
        match k { Kind::OwnedInto => 0, Kind::RefInto => 1, Kind::FromOwned => 2, Kind::FromRef => 3, Kind::OwnedIntoExisting => 4, Kind::RefIntoExisting => 5 }
    }
    fn any_appl() -> ApplicableTo {
        [kani::any(), kani::any(), kani::any(), kani::any(), kani::any(), kani::any()]
    }
    // first index dedicated to A among the entries satisfying `ok`, else first default one
    fn oracle(sels: &[u8; 2], ok: &[bool; 2], n: usize) -> Option<usize> {
        let mut i = 0;
        while i < n { if ok[i] && sels[i] == 1 { return Some(i); } i += 1; }
        let mut i = 0;
        while i < n { if ok[i] && sels[i] == 0 { return Some(i); } i += 1; }
        None
    }
    fn any_len() -> usize {
        let n: usize = kani::any();
        kani::assume(n <= 2);
        n
    }

    macro_rules! plain_lookup {
        ($name:ident, $list:ident, $call:ident, $mk:expr) => {
            #[kani::proof]
            #[kani::unwind(4)]
            fn $name() {
                let n = any_len();
                let mut a = MemberAttrs::default();
                let mut sels = [0u8; 2];
                let mut i = 0;
                while i < n {
                    let s = any_sel();
                    sels[i] = s;
                    a.$list.push(($mk)(ct(s)));
                    i += 1;
                }
                let q = tp(0);
                let r = a.$call(&q);
                match (r, oracle(&sels, &[true, true], n)) {
                    (Some(x), Some(i)) => assert!(core::ptr::eq(x, &a.$list[i])),
                    (None, None) => {}
                    _ => assert!(false),
                }
                core::mem::forget(a);
                core::mem::forget(q);
            }
        };
    }
    plain_lookup!(twin_lit, lit_attrs, lit, |c| LitAttr { container_ty: c, tokens: TokenStream::new() });
    plain_lookup!(twin_pat, pat_attrs, pat, |c| PatAttr { container_ty: c, tokens: TokenStream::new() });
    plain_lookup!(twin_type_hint, type_hint_attrs, type_hint, |c| VariantTypeHintAttr { container_ty: c, type_hint: TypeHint::Unspecified });

    macro_rules! data_type_lookup {
        ($name:ident, $list:ident, $call:ident, $mk:expr) => {
            #[kani::proof]
            #[kani::unwind(4)]
            fn $name() {
                let n = any_len();
                let mut a = DataTypeAttrs::default();
                let mut sels = [0u8; 2];
                let mut i = 0;
                while i < n {
                    let s = any_sel();
                    sels[i] = s;
                    a.$list.push(($mk)(ct(s)));
                    i += 1;
                }
                let q = tp(0);
                let r = a.$call(&q);
                match (r, oracle(&sels, &[true, true], n)) {
                    (Some(x), Some(i)) => assert!(core::ptr::eq(x, &a.$list[i])),
                    (None, None) => {}
                    _ => assert!(false),
                }
                core::mem::forget(a);
                core::mem::forget(q);
            }
        };
    }
    data_type_lookup!(twin_where_attr, where_attrs, where_attr, |c| WhereAttr { container_ty: c, where_clause: Punctuated::new() });
    data_type_lookup!(twin_child_parents_attr, child_parents_attrs, child_parents_attr, |c| ChildParentsAttr { container_ty: c, child_parents: Punctuated::new() });

    #[kani::proof]
    #[kani::unwind(4)]
    fn twin_child() {
        let n = any_len();
        let mut a = MemberAttrs::default();
        let mut sels = [0u8; 2];
        let mut i = 0;
        while i < n {
            let s = any_sel();
            sels[i] = s;
            a.child_attrs.push(ChildAttr { container_ty: ct(s), child_path: ChildPath { child_path: Punctuated::new(), child_path_str: Vec::new() } });
            i += 1;
        }
        let q = tp(0);
        let r = a.child(&q);
        match (r, oracle(&sels, &[true, true], n)) {
            (Some(x), Some(i)) => assert!(core::ptr::eq(x, &a.child_attrs[i])),
            (None, None) => {}
            _ => assert!(false),
        }
        core::mem::forget(a);
        core::mem::forget(q);
    }

    #[kani::proof]
    #[kani::unwind(4)]
    fn twin_ghost() {
        let n = any_len();
        let k = any_kind();
        let mut a = MemberAttrs::default();
        let mut sels = [0u8; 2];
        let mut ok = [false; 2];
        let mut i = 0;
        while i < n {
            let s = any_sel();
            let ap = any_appl();
            sels[i] = s;
            ok[i] = ap[kidx(k)];
            a.ghost_attrs.push(GhostAttr { attr: FieldGhostAttrCore { container_ty: ct(s), action: None }, applicable_to: ap });
            i += 1;
        }
        let q = tp(0);
        let r = a.ghost(&q, &k);
        match (r, oracle(&sels, &ok, n)) {
            (Some(x), Some(i)) => assert!(core::ptr::eq(x, &a.ghost_attrs[i].attr)),
            (None, None) => {}
            _ => assert!(false),
        }
        core::mem::forget(a);
        core::mem::forget(q);
    }

    #[kani::proof]
    #[kani::unwind(4)]
    fn twin_ghosts_attr() {
        let n = any_len();
        let k = any_kind();
        let mut a = DataTypeAttrs::default();
        let mut sels = [0u8; 2];
        let mut ok = [false; 2];
        let mut i = 0;
        while i < n {
            let s = any_sel();
            let ap = any_appl();
            sels[i] = s;
            ok[i] = ap[kidx(k)];
            a.ghosts_attrs.push(GhostsAttr { attr: StructGhostAttrCore { container_ty: ct(s), ghost_data: Punctuated::new() }, applicable_to: ap });
            i += 1;
        }
        let q = tp(0);
        let r = a.ghosts_attr(&q, &k);
        match (r, oracle(&sels, &ok, n)) {
            (Some(x), Some(i)) => assert!(core::ptr::eq(x, &a.ghosts_attrs[i].attr)),
            (None, None) => {}
            _ => assert!(false),
        }
        core::mem::forget(a);
        core::mem::forget(q);
    }

    // parent lookups: has_parent_attr = some entry default or dedicated to A; has_parameterless = same with no child list;
    // parameterized_parent_attr = dedicated-then-default among the entries with a child list
    #[kani::proof]
    #[kani::unwind(4)]
    fn twin_parent_lookups() {
        let n = any_len();
        let mut a = MemberAttrs::default();
        let mut sels = [0u8; 2];
        let mut with_children = [false; 2];
        let mut i = 0;
        while i < n {
            let s = any_sel();
            let p: bool = kani::any();
            sels[i] = s;
            with_children[i] = p;
            a.parent_attrs.push(ParentAttr { container_ty: ct(s), child_fields: if p { Some(Vec::new()) } else { None } });
            i += 1;
        }
        let q = tp(0);
        let mut any_rel = false;
        let mut any_bare = false;
        let mut i = 0;
        while i < n {
            if sels[i] != 2 { any_rel = true; if !with_children[i] { any_bare = true; } }
            i += 1;
        }
        assert!(a.has_parent_attr(&q) == any_rel);
        assert!(a.has_parameterless_parent_attr(&q) == any_bare);
        match (a.parameterized_parent_attr(&q), oracle(&sels, &with_children, n)) {
            (Some(x), Some(i)) => assert!(core::ptr::eq(x, &a.parent_attrs[i])),
            (None, None) => {}
            _ => assert!(false),
        }
        core::mem::forget(a);
        core::mem::forget(q);
    }

    fn mk_member_attr(s: u8, fallible: bool, ap: ApplicableTo) -> MemberAttr {
        MemberAttr { attr: MemberAttrCore { container_ty: ct(s), member: None, action: None }, fallible, original_instr: String::new(), applicable_to: ap }
    }
    fn level(sels: &[u8; 2], fall: &[bool; 2], aps: &[ApplicableTo; 2], n: usize, k: Kind, f: bool) -> Option<usize> {
        let ok = [fall[0] == f && aps[0][kidx(k)], fall[1] == f && aps[1][kidx(k)]];
        oracle(sels, &ok, n)
    }
    fn into_of(k: Kind) -> Kind {
        match k { Kind::OwnedIntoExisting => Kind::OwnedInto, Kind::RefIntoExisting => Kind::RefInto, o => o }
    }

    // the whole fallback chain (C05): ghost first; exact kind; (fallible) infallible of that kind; (into_existing) the
    // corresponding into, exact then infallible
    #[kani::proof]
    #[kani::unwind(4)]
    fn twin_applicable_attr() {
        let n = any_len();
        let k = any_kind();
        let fallible: bool = kani::any();
        let mut a = MemberAttrs::default();
        let mut sels = [0u8; 2];
        let mut fall = [false; 2];
        let mut aps: [ApplicableTo; 2] = [[false; 6]; 2];
        let mut i = 0;
        while i < n {
            let s = any_sel();
            let fl: bool = kani::any();
            let ap = any_appl();
            sels[i] = s; fall[i] = fl; aps[i] = ap;
            a.attrs.push(mk_member_attr(s, fl, ap));
            i += 1;
        }
        // at most one ghost entry (the ghost lookup itself is twin_ghost)
        let has_ghost: bool = kani::any();
        let gsel = any_sel();
        let gap = any_appl();
        if has_ghost {
            a.ghost_attrs.push(GhostAttr { attr: FieldGhostAttrCore { container_ty: ct(gsel), action: None }, applicable_to: gap });
        }
        let q = tp(0);
        let r = a.applicable_attr(&k, fallible, &q);
        let ghost_applies = has_ghost && gap[kidx(k)] && gsel != 2;
        let is_ie = k == Kind::OwnedIntoExisting || k == Kind::RefIntoExisting;
        let mut exp = level(&sels, &fall, &aps, n, k, fallible);
        if exp.is_none() && fallible { exp = level(&sels, &fall, &aps, n, k, false); }
        if exp.is_none() && is_ie { exp = level(&sels, &fall, &aps, n, into_of(k), fallible); }
        if exp.is_none() && is_ie && fallible { exp = level(&sels, &fall, &aps, n, into_of(k), false); }
        match r {
            Some(ApplicableAttr::Ghost(g)) => { assert!(ghost_applies); assert!(core::ptr::eq(g, &a.ghost_attrs[0].attr)); }
            Some(ApplicableAttr::Field(c)) => { assert!(!ghost_applies); assert!(exp.is_some()); assert!(core::ptr::eq(c, &a.attrs[exp.unwrap()].attr)); }
            Some(ApplicableAttr::ParentChildField(..)) => assert!(false),
            None => { assert!(!ghost_applies); assert!(exp.is_none()); }
        }
        core::mem::forget(a);
        core::mem::forget(q);
    }

    #[kani::proof]
    #[kani::unwind(4)]
    fn twin_field_attr_and_validation_view() {
        let n = any_len();
        let k = any_kind();
        let fallible: bool = kani::any();
        let mut a = MemberAttrs::default();
        let mut sels = [0u8; 2];
        let mut fall = [false; 2];
        let mut aps: [ApplicableTo; 2] = [[false; 6]; 2];
        let mut i = 0;
        while i < n {
            let s = any_sel();
            let fl: bool = kani::any();
            let ap = any_appl();
            sels[i] = s; fall[i] = fl; aps[i] = ap;
            a.attrs.push(mk_member_attr(s, fl, ap));
            i += 1;
        }
        let q = tp(0);
        let exact = level(&sels, &fall, &aps, n, k, fallible);
        match (a.field_attr(&k, fallible, &q), exact) {
            (Some(x), Some(i)) => assert!(core::ptr::eq(x, &a.attrs[i])),
            (None, None) => {}
            _ => assert!(false),
        }
        match (a.field_attr_core(&k, fallible, &q), exact) {
            (Some(x), Some(i)) => assert!(core::ptr::eq(x, &a.attrs[i].attr)),
            (None, None) => {}
            _ => assert!(false),
        }
        let is_ie = k == Kind::OwnedIntoExisting || k == Kind::RefIntoExisting;
        let mut exp = exact;
        if exp.is_none() && is_ie { exp = level(&sels, &fall, &aps, n, into_of(k), fallible); }
        match (a.applicable_field_attr(&k, fallible, &q), exp) {
            (Some(x), Some(i)) => assert!(core::ptr::eq(x, &a.attrs[i])),
            (None, None) => {}
            _ => assert!(false),
        }
        core::mem::forget(a);
        core::mem::forget(q);
    }

    #[kani::proof]
    #[kani::unwind(4)]
    fn twin_get_for_kind() {
        let n = any_len();
        let k = any_kind();
        let mut p = ParentChildField { this_member: Member::Unnamed(syn::Index { index: 0, span: Span::call_site() }), attrs: Vec::new(), sub_path: Vec::new(), sub_path_tokens: TokenStream::new() };
        let mut aps: [ApplicableTo; 2] = [[false; 6]; 2];
        let mut i = 0;
        while i < n {
            let ap = any_appl();
            aps[i] = ap;
            p.attrs.push(ParentChildFieldAttr { that_member: None, action: None, applicable_to: ap });
            i += 1;
        }
        let first = |kk: Kind| -> Option<usize> { let mut i = 0; while i < n { if aps[i][kidx(kk)] { return Some(i); } i += 1; } None };
        let mut exp = first(k);
        if exp.is_none() && (k == Kind::OwnedIntoExisting || k == Kind::RefIntoExisting) { exp = first(into_of(k)); }
        match (p.get_for_kind(&k), exp) {
            (Some(x), Some(i)) => assert!(core::ptr::eq(x, &p.attrs[i])),
            (None, None) => {}
            _ => assert!(false),
        }
        core::mem::forget(p);
    }

    // ---- complete (finite domain, no loops over inputs): the applicability tables on every instruction name
    fn expect_appl(name: &str) -> [bool; 6] {
        // README table: [owned_into, ref_into, from_owned, from_ref, owned_into_existing, ref_into_existing]
        match name {
            "owned_into" | "owned_try_into" => [true, false, false, false, false, false],
            "ref_into" | "ref_try_into" => [false, true, false, false, false, false],
            "from_owned" | "try_from_owned" => [false, false, true, false, false, false],
            "from_ref" | "try_from_ref" => [false, false, false, true, false, false],
            "owned_into_existing" | "owned_try_into_existing" => [false, false, false, false, true, false],
            "ref_into_existing" | "ref_try_into_existing" => [false, false, false, false, false, true],
            "into" | "try_into" => [true, true, false, false, false, false],
            "from" | "try_from" => [false, false, true, true, false, false],
            "map_owned" | "try_map_owned" => [true, false, true, false, false, false],
            "map_ref" | "try_map_ref" => [false, true, false, true, false, false],
            "map" | "try_map" => [true, true, true, true, false, false],
            "into_existing" | "try_into_existing" => [false, false, false, false, true, true],
            _ => [false; 6],
        }
    }
    const NAMES: [&str; 26] = ["owned_into", "ref_into", "into", "from_owned", "from_ref", "from", "map_owned", "map_ref", "map", "owned_into_existing",
        "ref_into_existing", "into_existing", "owned_try_into", "ref_try_into", "try_into", "try_from_owned", "try_from_ref", "try_from", "try_map_owned",
        "try_map_ref", "try_map", "owned_try_into_existing", "ref_try_into_existing", "try_into_existing", "ghost", "parent"];

    #[kani::proof]
    #[kani::unwind(32)]
    fn twin_tables_all_names() {
        let i: usize = kani::any();
        kani::assume(i < 26);
        let name = NAMES[i];
        let e = expect_appl(name);
        assert!(appl_owned_into(name) == e[0]);
        assert!(appl_ref_into(name) == e[1]);
        assert!(appl_from_owned(name) == e[2]);
        assert!(appl_from_ref(name) == e[3]);
        assert!(appl_owned_into_existing(name) == e[4]);
        assert!(appl_ref_into_existing(name) == e[5]);
    }
}
