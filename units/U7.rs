#![allow(unused)]
use ::vstd::prelude::*;
//@quote-macros
//@include prelude/tokens.rs
//@include prelude/deps.rs
//@include prelude/containers.rs
//@include prelude/option.rs
//@include prelude/strings.rs
verus! {
broadcast use str_axioms::axiom_str_eq_is_view_eq;
//@include units/types.inc
//@include units/spec_common.inc
} // verus!
//@include units/clones.inc
verus! {
//@include units/spec_lookups.inc

// =====================================================================================================
// U7 — nested (child / parent) fragments: where a nested struct is opened, what it is called, how deep (C03)
// =====================================================================================================

//@assume U4 attr.rs Kind::is_from

// ASSUMED (unreached callee): struct_init_block_inner — renders the members that belong to the current nesting level and
// consumes them from the list.  Uninterpreted function of (remaining members, named_fields, context view, nesting position).
uninterp spec fn sib_toks<'a>(items: Seq<&'a FieldContainer<'a>>, named_fields: bool, ctx: CView, fctx: Option<(ChildPath, Option<ChildRenderContext<'a>>, usize)>) -> Toks;
uninterp spec fn sib_rest<'a>(items: Seq<&'a FieldContainer<'a>>, named_fields: bool, ctx: CView, fctx: Option<(ChildPath, Option<ChildRenderContext<'a>>, usize)>) -> Seq<&'a FieldContainer<'a>>;

spec fn fctx_view<'a>(f: Option<(&'a ChildPath, Option<&'a ChildRenderContext<'a>>, usize)>) -> Option<(ChildPath, Option<ChildRenderContext<'a>>, usize)> {
    match f {
        Some((cp, crc, d)) => Some((*cp, match crc { Some(c) => Some(*c), None => None }, d)),
        None => None,
    }
}

//@stub expand.rs struct_init_block_inner ::= fn struct_init_block_inner( members: &mut Peekable<Iter<FieldContainer>>, named_fields: bool, ctx: &ImplContext, field_ctx: Option<(&ChildPath, Option<&ChildRenderContext>, usize)> ) -> TokenStream
#[verifier::external_body]
fn struct_init_block_inner(members: &mut Peekable<Iter<FieldContainer>>, named_fields: bool, ctx: &ImplContext, field_ctx: Option<(&ChildPath, Option<&ChildRenderContext>, usize)>) -> (r: TokenStream)
    ensures
        r@ == sib_toks(old(members).pitems(), named_fields, cview(*ctx), fctx_view(field_ctx)),
        final(members).pitems() == sib_rest(old(members).pitems(), named_fields, cview(*ctx), fctx_view(field_ctx)),
{ unimplemented!() }

//@fn ast.rs DataType::named_fields
//@props C03,C16
//@spec
    requires self is Struct, // #only-structs-have-a-field-form [C16]
    ensures r == (self->Struct_0).named_fields, // #own-form
//@end

// is the nested struct written `name: Ty {..},` (named parent) or `Ty {..},` (positional parent)?
spec fn child_named(named_fields: bool, hint: TypeHint) -> bool {
    (named_fields && (hint is Struct || hint is Unspecified)) || (!named_fields && hint is Struct)
}

//@fn expand.rs render_child
//@props C03,C16
//@spec
    requires
        *ctx.input is Struct, // #children-only-in-structs [C16]
        !(hint is Unit), // #nested-struct-has-a-form [C16]
        field_ctx.1 < field_ctx.0.child_path.pseq().len(), // #depth-within-path [C16]
    ensures
        r@ =~= (if child_named((*ctx.input)->Struct_0.named_fields, hint) { field_ctx.0.child_path.pseq()[field_ctx.1 as int].toks() + p(":") } else { nil() })
            + child_data.ty.toks()
            + sib_toks(old(fields).pitems(), named_fields, cview(*ctx), Some((*field_ctx.0, Some(*child_data), field_ctx.1)))
            + p(","), // #nested-struct-named-after-its-path-segment
        final(fields).pitems() == sib_rest(old(fields).pitems(), named_fields, cview(*ctx), Some((*field_ctx.0, Some(*child_data), field_ctx.1))), // #consumes-its-own-members
//@end


// ---------------------------------------------------------------- path strings
// prefix string of a child path up to and including segment `depth` (None: the whole path; "" for an empty path)
spec fn cps(cp: &ChildPath, depth: Option<usize>) -> Seq<char> {
    match depth {
        None => if cp.child_path_str@.len() == 0 { Seq::<char>::empty() } else { cp.child_path_str@[cp.child_path_str@.len() - 1]@ },
        Some(d) => cp.child_path_str@[d as int]@,
    }
}

// ASSUMED (String == &str has no usable specification in vstd): one comparison
//@stub attr.rs ChildParentData::check_match ::= fn check_match(&self, path: &str) -> bool
impl ChildParentData {
    #[verifier::external_body]
    fn check_match(&self, path: &str) -> (r: bool)
        ensures r == (self.field_path_str@ == path@),
    { unimplemented!() }
}

pub closed spec fn cpd_ty(v: ChildParentData) -> Path { v.ty }
pub closed spec fn cpd_hint(v: ChildParentData) -> TypeHint { v.type_hint }

impl<'a> ::vstd::std_specs::convert::FromSpecImpl<&'a ChildParentData> for ChildRenderContext<'a> {
    open spec fn obeys_from_spec() -> bool { true }
    open spec fn from_spec(v: &'a ChildParentData) -> Self { ChildRenderContext { ty: &cpd_ty(*v), type_hint: cpd_hint(*v) } }
}
//@fn expand.rs <ChildRenderContext<'a> as From<&'aChildParentData>>::from
//@props C03
//@spec
    ensures *r.ty == cpd_ty(*value) && r.type_hint == cpd_hint(*value), // #type-and-form-of-the-nested-struct
//@end


// prefix string of a child path (the real function: Vec::last / index, String::as_str)
//@fn attr.rs ChildPath::get_child_path_str
//@props C03,C16
//@spec
    requires depth is Some ==> depth->0 < self.child_path_str@.len(), // #depth-within-path [C16]
    ensures r@ == cps(self, depth), // #path-prefix-at-depth
//@closure 0
    |x: &String| -> (r: &str) ensures r@ == x@
//@proof
    reveal_strlit("");
//@end

// the #[child_parents] entry describing the nested struct at `path`, if any
spec fn q_cpd<'a>(path: Seq<char>) -> spec_fn(&'a ChildParentData) -> bool { |x: &'a ChildParentData| x.field_path_str@ == path }
spec fn find_child_data<'a>(d: &'a DataTypeAttrs, ty: TypePath, path: Seq<char>) -> Option<&'a ChildParentData> {
    match spec_child_parents(d, ty) {
        Some(cp) => first(refs(cp.child_parents.pseq()), q_cpd(path)),
        None => None,
    }
}
spec fn crc_of<'a>(o: Option<&'a ChildParentData>) -> Option<ChildRenderContext<'a>> {
    match o { Some(c) => Some(ChildRenderContext { ty: &cpd_ty(*c), type_hint: cpd_hint(*c) }), None => None }
}

//@assume U2 attr.rs DataTypeAttrs::child_parents_attr
//@assume U4 ast.rs DataType::get_attrs

//@fn expand.rs render_existing_child
//@props C03,C16
//@spec
    requires
        field_ctx.1 < field_ctx.0.child_path_str@.len(), // #depth-within-path [C16]
    ensures
        r@ == sib_toks(old(fields).pitems(), named_fields, cview(*ctx),
            Some((*field_ctx.0, crc_of(find_child_data(&dt_attrs(*ctx.input), ctx.struct_attr.ty, cps(field_ctx.0, Some(field_ctx.1)))), field_ctx.1))), // #existing-nested-struct-keeps-its-declared-form
        final(fields).pitems() == sib_rest(old(fields).pitems(), named_fields, cview(*ctx),
            Some((*field_ctx.0, crc_of(find_child_data(&dt_attrs(*ctx.input), ctx.struct_attr.ty, cps(field_ctx.0, Some(field_ctx.1)))), field_ctx.1))), // #consumes-its-own-members
//@closure 0
    |x: &ChildParentsAttr| -> (r: Option<&ChildParentData>) ensures r == first(refs(x.child_parents.pseq()), q_cpd(cps(field_ctx.0, Some(field_ctx.1))))
//@closure 1
    |child_data: &&ChildParentData| -> (r: bool) ensures r == q_cpd(cps(field_ctx.0, Some(field_ctx.1)))(*child_data)
//@closure 2
    |x: &ChildParentData| -> (r: ChildRenderContext) ensures *r.ty == cpd_ty(*x) && r.type_hint == cpd_hint(*x)
//@end


// ---------------------------------------------------------------- where a nested struct is opened (C03)
// a member with #[child(a.b.c)] seen at nesting position `depth` (None: top level): as long as the path is deeper than the
// current position, one more nested struct (path segment depth+1) is opened; otherwise the member's own line is rendered
spec fn opens_child(cp: &ChildPath, depth: Option<usize>) -> bool {
    depth is None || depth->0 < cp.child_path_str@.len() - 1
}
spec fn spec_next_depth(depth: Option<usize>) -> usize { match depth { None => 0, Some(d) => (d + 1) as usize } }

//@fn expand.rs render_child_fragment
//@props C03,C16,C17
//@spec
    requires
        child_path.child_path_str@.len() >= 1 && child_path.child_path_str@.len() == child_path.child_path.pseq().len(), // #path-has-a-segment [C16]
        depth is Some ==> depth->0 < usize::MAX,
        render_line.requires(()),
        *ctx.input is Struct, // #children-only-in-structs [C16]
        !(type_hint is Unit) || !k_is_into(ctx.kind) || !opens_child(child_path, depth), // #nested-struct-has-a-form [C16]
        // check_child_errors: every prefix of a child path has a #[child_parents] entry when converting into the counterpart
        (k_is_into(ctx.kind) && opens_child(child_path, depth)) ==>
            find_child_data(&dt_attrs(*ctx.input), ctx.struct_attr.ty, cps(child_path, Some(spec_next_depth(depth)))) is Some, // #child_parents-entry-exists [C16]
    ensures
        // deeper levels remain: open the nested struct named by the next path segment
        (opens_child(child_path, depth) && k_is_into(ctx.kind) && !ctx.has_post_init) ==> ({
            let nd = spec_next_depth(depth);
            let cd = find_child_data(&dt_attrs(*ctx.input), ctx.struct_attr.ty, cps(child_path, Some(nd)))->0;
            let fc = Some((*child_path, Some(ChildRenderContext { ty: &cpd_ty(*cd), type_hint: cpd_hint(*cd) }), nd));
            &&& r@ =~= (if child_named((*ctx.input)->Struct_0.named_fields, type_hint) { child_path.child_path.pseq()[nd as int].toks() + p(":") } else { nil() })
                + cpd_ty(*cd).toks() + sib_toks(old(fields).pitems(), (*ctx.input)->Struct_0.named_fields, cview(*ctx), fc) + p(",")
            &&& final(fields).pitems() == sib_rest(old(fields).pitems(), (*ctx.input)->Struct_0.named_fields, cview(*ctx), fc)
        }), // #into-opens-the-next-nested-struct
        // into_existing, and a body that pours a bare #[parent] into `obj`: nothing is constructed, the members assign through the path [C17]
        (opens_child(child_path, depth) && (k_is_into_existing(ctx.kind) || (k_is_into(ctx.kind) && ctx.has_post_init))) ==> ({
            let nd = spec_next_depth(depth);
            let fc = Some((*child_path, crc_of(find_child_data(&dt_attrs(*ctx.input), ctx.struct_attr.ty, cps(child_path, Some(nd)))), nd));
            &&& r@ == sib_toks(old(fields).pitems(), (*ctx.input)->Struct_0.named_fields, cview(*ctx), fc)
            &&& final(fields).pitems() == sib_rest(old(fields).pitems(), (*ctx.input)->Struct_0.named_fields, cview(*ctx), fc)
        }), // #into_existing-descends-without-constructing
        // bottom of the path reached, or reading FROM the counterpart (no construction): exactly this member's line, one member consumed
        (!opens_child(child_path, depth) || k_is_from(ctx.kind)) ==> (render_line.ensures((), r)
            && final(fields).pitems() == (if old(fields).pitems().len() > 0 { old(fields).pitems().drop_first() } else { old(fields).pitems() })), // #leaf-renders-its-own-line
//@closure 0
    |x: usize| -> (r: usize) requires x < usize::MAX ensures r == x + 1
//@closure 1
    |child_data: &&ChildParentData| -> (r: bool) ensures r == q_cpd(cps(child_path, Some(spec_next_depth(depth))))(*child_data)
//@end


// ---------------------------------------------------------------- #[parent(a, [parent(..)] b: B, ..)]: nested structs of this side
// ASSUMED (its body pushes into a captured collection): the child path `root . sub_path..`
//@stub attr.rs ChildPath::new ::= fn new<I: Iterator<Item = Member>>(root: Member, sub_path: I) -> ChildPath
impl ChildPath {
    #[verifier::external_body]
    fn new<I: Iterator<Item = Member>>(root: Member, sub_path: I) -> (r: ChildPath)
        ensures r == spec_child_path_new(root, sub_path.items()),
    { unimplemented!() }
}
// the path value built from a root member and the members below it: its segments are exactly those members
uninterp spec fn spec_child_path_new(root: Member, subs: Seq<Member>) -> ChildPath;
broadcast axiom fn axiom_child_path_new(root: Member, subs: Seq<Member>)
    ensures
        (#[trigger] spec_child_path_new(root, subs)).child_path.pseq() == seq![root] + subs,
        spec_child_path_new(root, subs).child_path_str@.len() == subs.len() + 1;

spec fn sub_member<'a>() -> spec_fn(&'a (Member, Option<Path>)) -> Member { |x: &'a (Member, Option<Path>)| x.0 }

// the nested struct opened for a #[parent(..)] child field at nesting position `depth` when converting FROM the counterpart:
// its type is the parent field's type at the top, the typed sub-path segment below; it is named after the path segment
//@fn expand.rs render_parent_child_fragment
//@props C03,C16
//@uses axiom_child_path_new
//@spec
    requires
        render_line.requires(()),
        depth is Some ==> depth->0 < usize::MAX,
        *ctx.input is Struct, // #children-only-in-structs [C16]
        // validate_parent_attrs: every nested parent is typed; the parent field itself has a path type
        (k_is_from(ctx.kind) && depth is None) ==> field.ty is Some, // #parent-field-has-a-path-type [C16]
        (k_is_from(ctx.kind) && depth is Some && depth->0 < parent_child_field.sub_path@.len()) ==> parent_child_field.sub_path@[depth->0 as int].1 is Some, // #nested-parent-is-typed [C16]
    ensures
        ((depth is None || depth->0 < parent_child_field.sub_path@.len()) && k_is_from(ctx.kind)) ==> ({
            let cp = spec_child_path_new(field.member, refs(parent_child_field.sub_path@).map_values(sub_member()));
            let nd = spec_next_depth(depth);
            let ty = if depth is Some { parent_child_field.sub_path@[depth->0 as int].1->0 } else { field.ty->0 };
            let hint = if (*ctx.input)->Struct_0.named_fields { TypeHint::Struct } else { TypeHint::Tuple };
            let fc = Some((cp, Some(ChildRenderContext { ty: &ty, type_hint: ctx.struct_attr.type_hint }), nd));
            &&& r@ =~= (if child_named((*ctx.input)->Struct_0.named_fields, hint) { cp.child_path.pseq()[nd as int].toks() + p(":") } else { nil() })
                + ty.toks() + sib_toks(old(fields).pitems(), named_fields, cview(*ctx), fc) + p(",")
            &&& final(fields).pitems() == sib_rest(old(fields).pitems(), named_fields, cview(*ctx), fc)
        }), // #from-opens-the-nested-parent-struct
        (!(depth is None || depth->0 < parent_child_field.sub_path@.len()) || !k_is_from(ctx.kind)) ==> (render_line.ensures((), r)
            && final(fields).pitems() == (if old(fields).pitems().len() > 0 { old(fields).pitems().drop_first() } else { old(fields).pitems() })), // #leaf-renders-its-own-line
//@closure 0
    |x: usize| -> (r: usize) requires x < usize::MAX ensures r == x + 1
//@closure 1
    |x: &(Member, Option<Path>)| -> (r: Member) ensures r == sub_member()(x)
//@end

} // verus!
