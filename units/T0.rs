#![allow(unused)]
use ::vstd::prelude::*;
//@quote-macros
//@include prelude/tokens.rs
//@include prelude/deps.rs
//@include prelude/containers.rs
//@include prelude/option.rs
//@include prelude/strings.rs
verus! {
//@include units/types.inc
} // verus!
