#![allow(unused)]
use ::vstd::prelude::*;
//@quote-macros
//@include prelude/tokens.rs
//@include prelude/deps.rs
//@include prelude/containers.rs
//@include prelude/option.rs
//@include prelude/strings.rs
verus! {
broadcast use str_axioms::axiom_str_eq_is_view_eq;
//@include units/types.inc
//@include units/spec_common.inc
} // verus!
//@include units/clones.inc
verus! {
//@include units/spec_lookups.inc
//@include units/spec_lines.inc
//@include units/spec_destruct.inc
//@include units/spec_enum.inc

// =====================================================================================================
// U9 — block assembly that is within reach: enum arms in order, default case; payload destructuring; vars(..)
// =====================================================================================================

//@assume U4 attr.rs Kind::is_from
//@assume U4 expand.rs quote_action
//@assume U2 attr.rs MemberAttrs::ghost
//@assume U2 attr.rs MemberAttrs::lit
//@assume U2 attr.rs MemberAttrs::pat
//@assume U2 attr.rs DataTypeAttrs::ghosts_attr
//@assume U6 expand.rs render_enum_line
//@assume U6 expand.rs render_enum_ghost_line

// a variant is left out of the match: ghost for this conversion when converting from the counterpart; ghost without a
// default value when converting into it
spec fn variant_skipped<'a>(v: &'a Variant, ctx: ImplContext<'a>) -> bool {
    match spec_ghost(&v.attrs, ctx.struct_attr.ty, ctx.kind) {
        Some(g) => k_is_from(ctx.kind) || g.action is None,
        None => false,
    }
}

// arms in declaration order, then the arms of enum-level #[ghosts]
spec fn enum_arms<'a>(items: Seq<&'a VariantData<'a>>, ctx: ImplContext<'a>) -> Seq<Toks>
    decreases items.len(),
{
    if items.len() == 0 {
        Seq::<Toks>::empty()
    } else {
        (match *items[0] {
            VariantData::Variant(v) => if variant_skipped(v, ctx) { Seq::<Toks>::empty() } else { seq![spec_variant_arm(v, ctx)] },
            VariantData::GhostData(g) => seq![spec_enum_ghost_arm(g, ctx)],
        }) + enum_arms(items.drop_first(), ctx)
    }
}

spec fn enum_items_pre<'a>(items: Seq<&'a VariantData<'a>>, ctx: ImplContext<'a>) -> bool {
    forall|i: int| 0 <= i < items.len() ==> (match *#[trigger] items[i] {
        VariantData::Variant(v) => variant_skipped(v, ctx) || enum_line_pre(v, ctx),
        VariantData::GhostData(g) => !(g.ghost_ident matches GhostIdent::Member(Member::Unnamed(_))),
    })
}

spec fn q_has_lit_or_pat<'a>(ty: TypePath) -> spec_fn(&'a Variant) -> bool {
    |v: &Variant| spec_lit(&v.attrs, ty) is Some || spec_pat(&v.attrs, ty) is Some
}
spec fn q_is_ghost<'a>(ty: TypePath, k: Kind) -> spec_fn(&'a Variant) -> bool {
    |v: &Variant| spec_ghost(&v.attrs, ty, k) is Some
}

// the `_ => default` arm is emitted when some source value may be covered by no arm:
//   converting from the counterpart: a variant corresponds to a literal / pattern, or counterpart-only variants are declared;
//   converting into it: a variant of this enum is ghost
spec fn default_case_needed<'a>(input: &Enum<'a>, ctx: ImplContext<'a>) -> bool {
    let ty = ctx.struct_attr.ty;
    if k_is_from(ctx.kind) {
        first(refs(input.variants@), q_has_lit_or_pat(ty)) is Some || spec_ghosts_attr(&input.attrs, ty, ctx.kind) is Some
    } else {
        first(refs(input.variants@), q_is_ghost(ty, ctx.kind)) is Some
    }
}

spec fn default_arm<'a>(input: &Enum<'a>, ctx: ImplContext<'a>) -> Seq<Toks> {
    match ctx.struct_attr.default_case {
        Some(d) => if default_case_needed(input, ctx) { seq![p("_") + spec_action(d@, nil(), ctx)] } else { Seq::<Toks>::empty() },
        None => Seq::<Toks>::empty(),
    }
}

//@fn expand.rs enum_init_block_inner
//@props C02,C09,C16
//@uses flat_lemmas::group_flat
//@spec
    requires
        enum_items_pre(old(members).pitems(), *ctx), // #every-rendered-variant-has-a-defined-arm [C16]
    ensures
        r@ =~= brace(flat(enum_arms(old(members).pitems(), *ctx)) + flat(default_arm(input, *ctx))), // #arms-in-declaration-order-then-default-case
        final(members).pitems().len() == 0, // #all-variants-consumed
//@loop 0
        invariant
            flat(toks_of(fragments@)) + flat(enum_arms(members.pitems(), *ctx)) =~= flat(enum_arms(old(members).pitems(), *ctx)),
            enum_items_pre(members.pitems(), *ctx),
        ensures
            members.pitems().len() == 0,
        decreases members.pitems().len(),
        @body broadcast use {flat_lemmas::group_flat};
//@closure 0
    |v: &Variant| -> (r: bool) ensures r == q_has_lit_or_pat(ctx.struct_attr.ty)(v)
//@closure 1
    |v: &Variant| -> (r: bool) ensures r == q_is_ghost(ctx.struct_attr.ty, ctx.kind)(v)
//@end


// ---------------------------------------------------------------- enum_init_block: variants in declaration order, then the
// counterpart-only variants of the #[ghosts] that applies to this counterpart and kind (C02 C06)
spec fn mk_variant<'a>() -> spec_fn(&'a Variant) -> VariantData<'a> { |v: &'a Variant| VariantData::Variant(v) }
spec fn mk_ghost<'a>() -> spec_fn(&'a GhostData) -> VariantData<'a> { |d: &'a GhostData| VariantData::GhostData(d) }

spec fn enum_fields<'a>(input: &'a Enum<'a>, ctx: ImplContext<'a>) -> Seq<VariantData<'a>> {
    refs(input.variants@).map_values(mk_variant())
    + (match spec_ghosts_attr(&input.attrs, ctx.struct_attr.ty, ctx.kind) {
        Some(g) => refs(g.ghost_data.pseq()).map_values(mk_ghost()),
        None => Seq::<VariantData>::empty(),
    })
}

//@fn expand.rs enum_init_block
//@props C02,C06,C09,C16
//@uses flat_lemmas::group_seq
//@eta VariantData::Variant :: &Variant -> VariantData
//@eta VariantData::GhostData :: &GhostData -> VariantData
//@spec
    requires
        enum_items_pre(refs(enum_fields(input, *ctx)), *ctx), // #every-rendered-variant-has-a-defined-arm [C16]
    ensures
        r@ =~= brace(flat(enum_arms(refs(enum_fields(input, *ctx)), *ctx)) + flat(default_arm(input, *ctx))), // #own-variants-then-applicable-ghosts
//@end


// ---------------------------------------------------------------- variant_destruct_block (C02 C06 C16)
//@assume U2 attr.rs MemberAttrs::applicable_attr
//@assume U5 attr.rs GhostIdent::get_ident
//@assume U5 expand.rs ApplicableAttr::get_field_name_or

spec fn ghosts_named<'a>(sv: SView, ctx: CView) -> bool {
    k_is_from(ctx.kind) ==> (match first_ghosts(sv.attrs.ghosts_attrs, ctx.sa.ty, ctx.kind) {
        Some(g) => forall|i: int| 0 <= i < g.ghost_data.pseq().len() ==> #[trigger] g.ghost_data.pseq()[i].ghost_ident is Member,
        None => true,
    })
}

//@fn expand.rs variant_destruct_block
//@props C02,C06,C16
//@uses flat_lemmas::group_flat, flat_lemmas::group_seq
//@spec
    requires
        ghosts_named(sview(*input), cview(*ctx)), // #payload-ghosts-name-a-member [C16]
        forall|i: int| 0 <= i < input.fields@.len() ==> (#[trigger] input.fields@[i]).idx <= u32::MAX,
    ensures
        r@ =~= spec_variant_destruct(sview(*input), cview(*ctx)), // #payload-pattern
//@closure 0
    |x: &&Field| -> (r: bool) ensures r == q_bound(cview(*ctx))(*x)
//@closure 1
    |x: &Field| -> (r: TokenStream) requires q_bound(cview(*ctx))(x) ensures r@ =~= field_binding(x, TypeHint::Struct, cview(*ctx))
//@closure 2
    |x: &&Field| -> (r: bool) ensures r == q_bound(cview(*ctx))(*x)
//@closure 3
    |x: &Field| -> (r: TokenStream) ensures r@ =~= field_binding(x, TypeHint::Tuple, cview(*ctx))
//@closure 4
    |x: &GhostData| -> (r: TokenStream) requires x.ghost_ident is Member ensures r@ =~= ghost_binding()(x)
//@end


// ---------------------------------------------------------------- vars(..) bindings (C08)
spec fn otoks(o: Option<TokenStream>) -> Option<Toks> { match o { Some(t) => Some(t@), None => None } }

//@fn expand.rs struct_pre_init
//@props C08,C10
//@uses flat_lemmas::group_flat
//@spec
    ensures otoks(r) == spec_pre_init(*ctx), // #one-let-per-var-in-declaration-order
//@closure 0
    |x: &InitData| -> (r: TokenStream) ensures r@ =~= let_binding(*ctx)(x)
//@end

} // verus!
