#![allow(unused)]
use ::vstd::prelude::*;
//@quote-macros
//@include prelude/tokens.rs
//@include prelude/deps.rs
//@include prelude/containers.rs
//@include prelude/option.rs
//@include prelude/strings.rs
verus! {
broadcast use str_axioms::axiom_str_eq_is_view_eq;
//@include units/types.inc
//@include units/spec_common.inc
} // verus!
//@include units/clones.inc
verus! {
//@include units/spec_lookups.inc
//@include units/spec_lines.inc
//@include units/spec_destruct.inc
//@include units/spec_enum.inc
//@include units/spec_enum_block.inc

// =====================================================================================================
// U9 — block assembly that is within reach: enum arms in order, default case; payload destructuring; vars(..)
// =====================================================================================================

//@assume U4 attr.rs Kind::is_from
//@assume U4 expand.rs quote_action
//@assume U2 attr.rs MemberAttrs::ghost
//@assume U2 attr.rs MemberAttrs::lit
//@assume U2 attr.rs MemberAttrs::pat
//@assume U2 attr.rs DataTypeAttrs::ghosts_attr
//@assume U6 expand.rs render_enum_line
//@assume U6 expand.rs render_enum_ghost_line

// C06: ghost-variant skipping and the default-case condition are decided by the instructions applicable to THIS counterpart
//@fn expand.rs enum_init_block_inner
//@props C02,C06,C09,C16
//@attr #[verifier::loop_isolation(false)]
//@attr #[verifier::allow_complex_invariants]
//@uses flat_lemmas::group_flat
//@spec
    requires
        enum_items_pre(old(members).pitems(), *ctx), // #every-rendered-variant-has-a-defined-arm [C16]
    ensures
        r@ =~= brace(flat(enum_arms(old(members).pitems(), *ctx)) + flat(default_arm(input, *ctx))), // #arms-in-declaration-order-then-default-case
        final(members).pitems().len() == 0, // #all-variants-consumed
//@loop 0
        invariant
            flat(toks_of(fragments@)) + flat(enum_arms(members.pitems(), *ctx)) =~= flat(enum_arms(old(members).pitems(), *ctx)),
            enum_items_pre(members.pitems(), *ctx),
        ensures
            members.pitems().len() == 0,
        decreases members.pitems().len(),
        @body broadcast use {flat_lemmas::group_flat};
//@closure 0
    |v: &Variant| -> (r: bool) ensures r == q_has_lit_or_pat(ctx.struct_attr.ty)(v)
//@closure 1
    |v: &Variant| -> (r: bool) ensures r == q_is_ghost(ctx.struct_attr.ty, ctx.kind)(v)
//@end


//@fn expand.rs enum_init_block
//@props C02,C06,C09,C16
//@uses flat_lemmas::group_seq
//@eta VariantData::Variant :: &Variant -> VariantData
//@eta VariantData::GhostData :: &GhostData -> VariantData
//@spec
    requires
        enum_items_pre(refs(enum_fields(input, *ctx)), *ctx), // #every-rendered-variant-has-a-defined-arm [C16]
    ensures
        r@ =~= brace(flat(enum_arms(refs(enum_fields(input, *ctx)), *ctx)) + flat(default_arm(input, *ctx))), // #own-variants-then-applicable-ghosts
//@end


// ---------------------------------------------------------------- variant_destruct_block (C02 C06 C16)
//@assume U2 attr.rs MemberAttrs::applicable_attr
//@assume U5 attr.rs GhostIdent::get_ident
//@assume U5 expand.rs ApplicableAttr::get_field_name_or

spec fn ghosts_named<'a>(sv: SView, ctx: CView) -> bool {
    k_is_from(ctx.kind) ==> (match first_ghosts(sv.attrs.ghosts_attrs, ctx.sa.ty, ctx.kind) {
        Some(g) => forall|i: int| 0 <= i < g.ghost_data.pseq().len() ==> #[trigger] g.ghost_data.pseq()[i].ghost_ident is Member,
        None => true,
    })
}

//@fn expand.rs variant_destruct_block
//@props C02,C06,C16
//@uses flat_lemmas::group_flat, flat_lemmas::group_seq
//@spec
    requires
        ghosts_named(sview(*input), cview(*ctx)), // #payload-ghosts-name-a-member [C16]
        forall|i: int| 0 <= i < input.fields@.len() ==> (#[trigger] input.fields@[i]).idx <= u32::MAX,
    ensures
        r@ =~= spec_variant_destruct(sview(*input), cview(*ctx)), // #payload-pattern
//@closure 0
    |x: &&Field| -> (r: bool) ensures r == q_bound(cview(*ctx))(*x)
//@closure 1
    |x: &Field| -> (r: TokenStream) requires q_bound(cview(*ctx))(x) ensures r@ =~= field_binding(x, TypeHint::Struct, cview(*ctx))
//@closure 2
    |x: &&Field| -> (r: bool) ensures r == q_bound(cview(*ctx))(*x)
//@closure 3
    |x: &Field| -> (r: TokenStream) ensures r@ =~= field_binding(x, TypeHint::Tuple, cview(*ctx))
//@closure 4
    |x: &GhostData| -> (r: TokenStream) requires x.ghost_ident is Member ensures r@ =~= ghost_binding()(x)
//@end


// ---------------------------------------------------------------- vars(..) bindings (C08)
spec fn otoks(o: Option<TokenStream>) -> Option<Toks> { match o { Some(t) => Some(t@), None => None } }

//@fn expand.rs struct_pre_init
//@props C08,C10
//@uses flat_lemmas::group_flat
//@spec
    ensures otoks(r) == spec_pre_init(*ctx), // #one-let-per-var-in-declaration-order
//@closure 0
    |x: &InitData| -> (r: TokenStream) ensures r@ =~= let_binding(*ctx)(x)
//@end

} // verus!
