#![allow(unused)]
use ::vstd::prelude::*;
//@quote-macros
//@include prelude/tokens.rs
//@include prelude/deps.rs
//@include prelude/containers.rs
//@include prelude/option.rs
//@include prelude/strings.rs
verus! {
//@include units/types.inc
//@include units/spec_common.inc
} // verus!
//@include units/clones.inc
verus! {

// =====================================================================================================
// U3 — repeat merging (C14)
// =====================================================================================================

impl ::vstd::std_specs::core::IndexSpecImpl<&MemberAttrType> for [bool; 5] {
    open spec fn index_req(&self, index: &&MemberAttrType) -> bool { true }
}
impl ::vstd::std_specs::core::IndexSpecImpl<&TraitAttrType> for [bool; 4] {
    open spec fn index_req(&self, index: &&TraitAttrType) -> bool { true }
}

pub open spec fn mat_idx(t: MemberAttrType) -> int {
    match t {
        MemberAttrType::Attr => 0,
        MemberAttrType::Child => 1,
        MemberAttrType::Parent => 2,
        MemberAttrType::Ghost => 3,
        MemberAttrType::TypeHint => 4,
    }
}
pub open spec fn tat_idx(t: TraitAttrType) -> int {
    match t {
        TraitAttrType::Vars => 0,
        TraitAttrType::Update => 1,
        TraitAttrType::QuickReturn => 2,
        TraitAttrType::DefaultCase => 3,
    }
}

mod attr_index2 {
use super::*;
use ::core::ops::Index;
//@fn attr.rs <MemberRepeatFor as Index<&MemberAttrType>>::index
//@props C14
//@spec
    ensures *r == self[mat_idx(*index)], // #category-to-flag
//@end
//@fn attr.rs <TraitRepeatFor as Index<&TraitAttrType>>::index
//@props C14
//@spec
    ensures *r == self[tat_idx(*index)], // #param-to-flag
//@end
}

spec fn sel<T>(flag: bool, s: Seq<T>) -> Seq<T> { if flag { s } else { Seq::<T>::empty() } }

//@fn attr.rs MemberAttrs::merge
//@props C14
//@spec
    ensures
        // a member marked skip_repeat, or a template without repeat, changes nothing
        (old(self).skip_repeat || other.repeat is None) ==> *final(self) == *old(self), // #skip_repeat-or-no-template
        // otherwise each selected category is appended after the member's own entries, order kept
        (!old(self).skip_repeat && other.repeat is Some) ==> ({
            let f = other.repeat->0.repeat_for;
            &&& final(self).attrs@ =~= old(self).attrs@ + sel(f[0], other.attrs@)
            &&& final(self).child_attrs@ =~= old(self).child_attrs@ + sel(f[1], other.child_attrs@)
            &&& final(self).parent_attrs@ =~= old(self).parent_attrs@ + sel(f[2], other.parent_attrs@)
            &&& final(self).ghost_attrs@ =~= old(self).ghost_attrs@ + sel(f[3], other.ghost_attrs@)
            &&& final(self).type_hint_attrs@ =~= old(self).type_hint_attrs@ + sel(f[4], other.type_hint_attrs@)
        }), // #selected-categories-appended
        // frame: nothing else is touched
        final(self).ghosts_attrs == old(self).ghosts_attrs && final(self).lit_attrs == old(self).lit_attrs && final(self).pat_attrs == old(self).pat_attrs
            && final(self).repeat == old(self).repeat && final(self).skip_repeat == old(self).skip_repeat && final(self).stop_repeat == old(self).stop_repeat
            && final(self).error_instrs == old(self).error_instrs, // #frame
//@end


// trait-level repeat(...): the selected parameters of the template are copied; a parameter that is already set is a conflict
spec fn tmerge_conflict(me: TraitAttrCore, f: [bool; 4]) -> bool {
    (f[0] && me.init_data is Some) || (f[1] && me.update is Some) || (f[2] && me.quick_return is Some) || (f[3] && me.default_case is Some)
}

//@fn attr.rs TraitAttrCore::merge
//@props C14,C15
//@spec
    ensures
        (old(self).skip_repeat || other.repeat is None) ==> (r is Ok && *final(self) == *old(self)), // #skip_repeat-or-no-template
        (!old(self).skip_repeat && other.repeat is Some) ==> (r is Err <==> tmerge_conflict(*old(self), other.repeat->0)), // #conflict-iff-already-set [C14,C15]
        (!old(self).skip_repeat && other.repeat is Some && r is Ok) ==> ({
            let f = other.repeat->0;
            &&& final(self).init_data == (if f[0] { other.init_data } else { old(self).init_data })
            &&& final(self).update == (if f[1] { other.update } else { old(self).update })
            &&& final(self).quick_return == (if f[2] { other.quick_return } else { old(self).quick_return })
            &&& final(self).default_case == (if f[3] { other.default_case } else { old(self).default_case })
        }), // #selected-params-copied
        final(self).ty == old(self).ty && final(self).err_ty == old(self).err_ty && final(self).type_hint == old(self).type_hint
            && final(self).repeat == old(self).repeat && final(self).skip_repeat == old(self).skip_repeat && final(self).stop_repeat == old(self).stop_repeat
            && final(self).attribute == old(self).attribute && final(self).impl_attribute == old(self).impl_attribute
            && final(self).inner_attribute == old(self).inner_attribute, // #frame
//@end

} // verus!
