#![allow(unused)]
use ::vstd::prelude::*;
//@quote-macros
//@include prelude/tokens.rs
//@include prelude/deps.rs
//@include prelude/containers.rs
//@include prelude/option.rs
//@include prelude/strings.rs
verus! {
//@include units/types.inc
//@include units/spec_common.inc
} // verus!
//@include units/clones.inc
verus! {
//@include units/spec_lookups.inc
//@include units/spec_lines.inc
//@include units/spec_destruct.inc
//@include units/spec_enum.inc
//@include units/spec_enum_block.inc

// =====================================================================================================
// U4 — trait skeletons, body wrappers, quote_action, render_parent
// =====================================================================================================

// ---------------------------------------------------------------- spec of the header parameters
pub ghost struct Q {
    pub attr: Toks,
    pub impl_attr: Toks,
    pub inner_attr: Toks,
    pub dst: Toks,
    pub src: Toks,
    pub these: Toks,
    pub those: Toks,
    pub impl_gens: Toks,
    pub wh: Toks,
    pub r: Toks,
}

spec fn q_of<'a>(p: QuoteTraitParams<'a>) -> Q {
    Q {
        attr: p.attr.toks(),
        impl_attr: p.impl_attr.toks(),
        inner_attr: p.inner_attr.toks(),
        dst: p.dst@,
        src: p.src@,
        these: p.these_gens@,
        those: p.those_gens@,
        impl_gens: p.impl_gens@,
        wh: p.where_clause.toks(),
        r: p.r.toks(),
    }
}

// first where_clause dedicated to `ty`, else first default one (DataTypeAttrs::where_attr, proved in U2)
spec fn first_where(s: Seq<WhereAttr>, ty: TypePath, dedicated: bool) -> Option<WhereAttr>
    decreases s.len(),
{
    if s.len() == 0 {
        None
    } else if (dedicated && dedicated_to(s[0].container_ty, ty)) || (!dedicated && s[0].container_ty is None) {
        Some(s[0])
    } else {
        first_where(s.drop_first(), ty, dedicated)
    }
}

spec fn spec_where_attr(s: Seq<WhereAttr>, ty: TypePath) -> Option<WhereAttr> {
    if first_where(s, ty, true) is Some { first_where(s, ty, true) } else { first_where(s, ty, false) }
}

// computed by get_quote_trait_params (ASSUMED, see stub below): the impl's generic parameter list and whether a fresh
// 'o2o lifetime is needed
uninterp spec fn spec_impl_gens<'a>(input: DataType<'a>, ctx: ImplContext<'a>) -> Toks;
uninterp spec fn spec_has_ref_lts<'a>(input: DataType<'a>, ctx: ImplContext<'a>) -> bool;
// the deriving type's generic parameters in ARGUMENT form (`<'a, T, N>`): what the property demands after the type
uninterp spec fn arg_form(g: Generics) -> Toks;

spec fn qparams<'a>(input: DataType<'a>, ctx: ImplContext<'a>) -> Q {
    Q {
        attr: ctx.struct_attr.attribute.toks(),
        impl_attr: ctx.struct_attr.impl_attribute.toks(),
        inner_attr: ctx.struct_attr.inner_attribute.toks(),
        dst: ctx.dst_ty@,
        src: ctx.src_ty@,
        these: arg_form(dt_generics(input)),   // split_for_impl().1
        those: ctx.struct_attr.ty.generics.toks(),
        impl_gens: spec_impl_gens(input, ctx),
        wh: match spec_where_attr(dt_attrs(input).where_attrs@, ctx.struct_attr.ty) {
            Some(w) => id("where") + w.where_clause.toks(),
            None => nil(),
        },
        r: if k_is_ref(ctx.kind) {
            if spec_has_ref_lts(input, ctx) { p("&") + lt("'o2o") } else { p("&") }
        } else {
            nil()
        },
    }
}

//@stub expand.rs get_quote_trait_params ::= fn get_quote_trait_params<'a>(input: &DataType, ctx: &'a ImplContext) -> QuoteTraitParams<'a>
#[verifier::external_body]
fn get_quote_trait_params<'a>(input: &DataType, ctx: &'a ImplContext) -> (r: QuoteTraitParams<'a>)
    ensures q_of(r) == qparams(*input, *ctx),
{ unimplemented!() }

// ---------------------------------------------------------------- documented shapes (C04 C11 C17 C20)
spec fn core_convert(tr: &str) -> Toks {
    p("::") + id("core") + p("::") + id("convert") + p("::") + id(tr)
}
spec fn o2o_traits(tr: &str) -> Toks {
    id("o2o") + p("::") + id("traits") + p("::") + id(tr)
}
spec fn core_result(ok: Toks, err: Toks) -> Toks {
    p("::") + id("core") + p("::") + id("result") + p("::") + id("Result") + p("<") + ok + p(",") + err + p(">")
}
// impl<G> Trait<[&['o2o]] Src<Those>> for Dst<These> [where ..]      (From / TryFrom: the deriving type is the target)
spec fn from_header(q: Q, trait_path: Toks) -> Toks {
    q.impl_attr + id("impl") + q.impl_gens + trait_path + p("<") + q.r + q.src + q.those + p(">") + id("for") + q.dst + q.these + q.wh
}
// impl<G> Trait<Dst<Those>> for [&['o2o]] Src<These> [where ..]      (Into family: the deriving type is the source)
spec fn into_header(q: Q, trait_path: Toks) -> Toks {
    q.impl_attr + id("impl") + q.impl_gens + trait_path + p("<") + q.dst + q.those + p(">") + id("for") + q.r + q.src + q.these + q.wh
}
spec fn type_error(err: Toks) -> Toks { id("type") + id("Error") + p("=") + err + p(";") }

spec fn spec_from_impl(q: Q, pre_init: Toks, init: Toks) -> Toks {
    from_header(q, core_convert("From")) + brace(
        q.attr + id("fn") + id("from") + paren(id("value") + p(":") + q.r + q.src + q.those) + p("->") + q.dst + q.these
        + brace(q.inner_attr + pre_init + init))
}
spec fn spec_try_from_impl(q: Q, err: Toks, pre_init: Toks, init: Toks) -> Toks {
    from_header(q, core_convert("TryFrom")) + brace(
        type_error(err)
        + q.attr + id("fn") + id("try_from") + paren(id("value") + p(":") + q.r + q.src + q.those) + p("->") + core_result(q.dst + q.these, err)
        + brace(q.inner_attr + pre_init + init))
}
spec fn into_body(q: Q, pre_init: Toks, init: Toks, post_init: Option<Toks>, ok: bool) -> Toks {
    match post_init {
        // vars(..) are bound first, whatever the form of the body [C08]
        Some(post) => pre_init + id("let") + id("mut") + id("obj") + p(":") + q.dst + p("=") + id("Default") + p("::") + id("default") + paren(nil()) + p(";")
            + init + post + (if ok { id("Ok") + paren(id("obj")) } else { id("obj") }),
        None => pre_init + init,
    }
}
spec fn spec_into_impl(q: Q, pre_init: Toks, init: Toks, post_init: Option<Toks>) -> Toks {
    into_header(q, core_convert("Into")) + brace(
        q.attr + id("fn") + id("into") + paren(id("self")) + p("->") + q.dst + q.those
        + brace(q.inner_attr + into_body(q, pre_init, init, post_init, false)))
}
spec fn spec_try_into_impl(q: Q, err: Toks, pre_init: Toks, init: Toks, post_init: Option<Toks>) -> Toks {
    into_header(q, core_convert("TryInto")) + brace(
        type_error(err)
        + q.attr + id("fn") + id("try_into") + paren(id("self")) + p("->") + core_result(q.dst + q.those, err)
        + brace(q.inner_attr + into_body(q, pre_init, init, post_init, true)))
}
spec fn opt_toks(o: Option<Toks>) -> Toks { match o { Some(t) => t, None => nil() } }
spec fn spec_into_existing_impl(q: Q, pre_init: Toks, init: Toks, post_init: Option<Toks>) -> Toks {
    into_header(q, o2o_traits("IntoExisting")) + brace(
        q.attr + id("fn") + id("into_existing") + paren(id("self") + p(",") + id("other") + p(":") + p("&") + id("mut") + q.dst + q.those)
        + brace(q.inner_attr + pre_init + init + opt_toks(post_init)))
}
spec fn spec_try_into_existing_impl(q: Q, err: Toks, pre_init: Toks, init: Toks, post_init: Option<Toks>) -> Toks {
    into_header(q, o2o_traits("TryIntoExisting")) + brace(
        type_error(err)
        + q.attr + id("fn") + id("try_into_existing") + paren(id("self") + p(",") + id("other") + p(":") + p("&") + id("mut") + q.dst + q.those)
        + p("->") + core_result(paren(nil()), err)
        + brace(q.inner_attr + pre_init + init + opt_toks(post_init) + id("Ok") + paren(paren(nil()))))
}

spec fn otoks(o: Option<TokenStream>) -> Option<Toks> { match o { Some(t) => Some(t@), None => None } }

// the declared error type: the full path WITH its generic arguments (C04 statement: "type Error equal to the declared error type")
spec fn declared_err(t: TypePath) -> Toks { t.path@ + t.generics.toks() }

//@fn attr.rs Kind::is_ref
//@props C04,C07
//@spec
    ensures r == k_is_ref(self), // #is_ref
//@end
//@fn attr.rs Kind::is_from
//@props C04,C07
//@spec
    ensures r == k_is_from(self), // #is_from
//@end
//@fn attr.rs Kind::is_into_existing
//@props C04,C07
//@spec
    ensures r == k_is_into_existing(self), // #is_into_existing
//@end
//@fn expand.rs ImplType::is_variant
//@props C02,C10
//@spec
    ensures r == (self is Variant), // #is_variant
//@end

//@fn expand.rs quote_from_trait
//@props C04,C08,C11,C17,C20
//@spec
    ensures
        r@ =~= spec_from_impl(qparams(*input, *ctx), pre_init.toks(), init@), // #impl-From
//@end

//@fn expand.rs quote_try_from_trait
//@props C04,C08,C11,C17,C20
//@spec
    requires
        ctx.struct_attr.err_ty is Some, // #err_ty-present [C16]
    ensures
        r@ =~= spec_try_from_impl(qparams(*input, *ctx), declared_err(ctx.struct_attr.err_ty->0), pre_init.toks(), init@), // #impl-TryFrom
//@end

//@fn expand.rs quote_into_trait
//@props C03,C04,C08,C11,C17,C20
//@spec
    ensures
        r@ =~= spec_into_impl(qparams(*input, *ctx), pre_init.toks(), init@, otoks(post_init)), // #impl-Into
//@end

//@fn expand.rs quote_try_into_trait
//@props C03,C04,C07,C08,C11,C17,C20
//@spec
    requires
        ctx.struct_attr.err_ty is Some, // #err_ty-present [C16]
    ensures
        r@ =~= spec_try_into_impl(qparams(*input, *ctx), declared_err(ctx.struct_attr.err_ty->0), pre_init.toks(), init@, otoks(post_init)), // #impl-TryInto
//@end

//@fn expand.rs quote_into_existing_trait
//@props C03,C04,C08,C11,C17,C20
//@spec
    ensures
        r@ =~= spec_into_existing_impl(qparams(*input, *ctx), pre_init.toks(), init@, otoks(post_init)), // #impl-IntoExisting
//@end

//@fn expand.rs quote_try_into_existing_trait
//@props C03,C04,C07,C08,C11,C17,C20
//@spec
    requires
        ctx.struct_attr.err_ty is Some, // #err_ty-present [C16]
    ensures
        r@ =~= spec_try_into_existing_impl(qparams(*input, *ctx), declared_err(ctx.struct_attr.err_ty->0), pre_init.toks(), init@, otoks(post_init)), // #impl-TryIntoExisting
//@end


// ---------------------------------------------------------------- @ / ~ substitution entry point (C10)
//@stub expand.rs replace_tilde_or_at_in_expr ::= fn replace_tilde_or_at_in_expr(input: &TokenStream, at_tokens: Option<&TokenStream>, tilde_tokens: Option<&TokenStream>) -> TokenStream
#[verifier::external_body]
fn replace_tilde_or_at_in_expr(input: &TokenStream, at_tokens: Option<&TokenStream>, tilde_tokens: Option<&TokenStream>) -> (r: TokenStream)
    ensures r@ == walk(input@, at_tokens.toks(), tilde_tokens.toks()),
{ unimplemented!() }

//@fn expand.rs quote_action
//@props C10
//@spec
    ensures
        r@ == spec_action(action@, tilde_postfix.toks(), *ctx), // #at-and-tilde-meaning
//@end

// ---------------------------------------------------------------- bare #[parent] poured into the counterpart (C03 C07)
spec fn self_member(m: Toks, by_ref: bool) -> Toks {
    if by_ref { paren(p("&") + paren(id("self") + p(".") + m)) } else { id("self") + p(".") + m }
}
spec fn spec_render_parent(m: Toks, k: Kind, fallible: bool) -> Toks {
    self_member(m, k_is_ref(k)) + p(".") + (if fallible { id("try_into_existing") } else { id("into_existing") })
    + paren(if k_is_into_existing(k) { id("other") } else { p("&") + id("mut") + id("obj") })
    + (if fallible { p("?") } else { nil() }) + p(";")
}

//@fn expand.rs render_parent
//@props C03,C07
//@spec
    requires
        !k_is_from(ctx.kind), // #not-from [C16]
    ensures
        r@ =~= spec_render_parent(f.member.toks(), ctx.kind, ctx.fallible), // #parent-pouring
//@end

// ---------------------------------------------------------------- body wrappers (C07 C08 C17)
// ASSUMED (unreached callee): the struct init block (the enum block is proved in U9)

//@stub expand.rs struct_init_block ::= fn struct_init_block<'a>(input: &'a Struct, ctx: &ImplContext) -> TokenStream
#[verifier::external_body]
fn struct_init_block<'a>(input: &'a Struct, ctx: &ImplContext) -> (r: TokenStream)
    ensures r@ == spec_struct_init(sview(*input), cview(*ctx)),
{ unimplemented!() }

//@assume U9 expand.rs enum_init_block

spec fn spec_struct_main<'a>(input: Struct<'a>, ctx: ImplContext<'a>) -> Toks {
    let init = spec_struct_init(sview(input), cview(ctx));
    if k_is_from(ctx.kind) {
        ctx.dst_ty@ + init
    } else if k_is_into(ctx.kind) {
        // the type name is omitted exactly for bare tuples and in the post-init dialect
        (if ctx.struct_attr.ty.nameless_tuple || ctx.has_post_init { nil() } else { ctx.dst_ty@ }) + init
    } else {
        init
    }
}

spec fn spec_enum_main<'a>(input: &'a Enum<'a>, ctx: ImplContext<'a>) -> Toks {
    let init = spec_enum_init(input, ctx);
    if k_is_from(ctx.kind) {
        id("match") + id("value") + init
    } else if k_is_into(ctx.kind) {
        id("match") + id("self") + init
    } else {
        init
    }
}

//@fn expand.rs struct_main_code_block
//@props C01,C17
//@spec
    ensures
        r@ =~= spec_struct_main(*input, *ctx), // #struct-body-shape
//@end

//@fn expand.rs enum_main_code_block
//@props C02,C17
//@spec
    requires
        enum_items_pre(refs(enum_fields(input, *ctx)), *ctx), // #every-rendered-variant-has-a-defined-arm [C16]
    ensures
        r@ =~= spec_enum_main(input, *ctx), // #enum-body-shape
//@end

spec fn spec_data_body<'a>(ctx: ImplContext<'a>) -> Toks {
    match *ctx.input {
        DataType::Struct(s) => spec_struct_main(*s, ctx),
        DataType::Enum(e) => spec_enum_main(e, ctx),
    }
}

// what the body builders need from validation (C16 ledger): for an enum without quick return, every rendered variant has a
// defined arm shape and carries what that shape needs.  (Independent of the post-init dialect: stated on the context with
// has_post_init = false.)
spec fn body_pre0<'a>(ctx: ImplContext<'a>) -> bool {
    ctx.struct_attr.quick_return is None ==> (match *ctx.input {
        DataType::Enum(e) => enum_items_pre(refs(enum_fields(e, ctx)), ctx),
        DataType::Struct(_) => true,
    })
}
spec fn body_pre<'a>(ctx: ImplContext<'a>) -> bool { body_pre0(ImplContext { has_post_init: false, ..ctx }) }

// `return expr` replaces the whole generated body; for into_existing it is assigned to the existing value (C08)
spec fn spec_quick_return<'a>(qr: Toks, ctx: ImplContext<'a>) -> Toks {
    if k_is_into_existing(ctx.kind) {
        p("*") + id("other") + p("=") + spec_action(qr, nil(), ctx) + p(";")
    } else {
        spec_action(qr, nil(), ctx)
    }
}

spec fn spec_main<'a>(ctx: ImplContext<'a>) -> Toks {
    match ctx.struct_attr.quick_return {
        Some(qr) => spec_quick_return(qr@, ctx),
        None => spec_data_body(ctx),
    }
}

// fallible From/Into: Ok(..) around what the infallible flavour returns, except in the post-init dialect where the
// skeleton ends with Ok(obj) (C07)
spec fn spec_main_ok<'a>(ctx: ImplContext<'a>) -> Toks {
    match ctx.struct_attr.quick_return {
        Some(qr) => spec_quick_return(qr@, ctx),
        None => if ctx.has_post_init { spec_data_body(ctx) } else { id("Ok") + paren(spec_data_body(ctx)) },
    }
}

//@fn expand.rs main_code_block
//@props C07,C08
//@spec
    requires
        body_pre(*ctx), // #body-preconditions [C16]
    ensures
        r@ =~= spec_main(*ctx), // #body-or-quick-return
//@end

//@fn expand.rs main_code_block_ok
//@props C07,C08
//@spec
    requires
        body_pre(*ctx), // #body-preconditions [C16]
    ensures
        r@ =~= spec_main_ok(*ctx), // #ok-wrapping
//@end


// ---------------------------------------------------------------- dispatch: (kind, fallible) -> skeleton (C04 C07)
// ASSUMED (unreached callee): bare-#[parent] pouring statements
uninterp spec fn spec_post_init<'a>(input: DataType<'a>, ctx: ImplContext<'a>) -> Option<Toks>;

//@assume U9 expand.rs struct_pre_init

//@stub expand.rs struct_post_init ::= fn struct_post_init(input: &DataType, ctx: &ImplContext) -> Option<TokenStream>
#[verifier::external_body]
fn struct_post_init(input: &DataType, ctx: &ImplContext) -> (r: Option<TokenStream>)
    ensures otoks(r) == spec_post_init(*input, *ctx),
{ unimplemented!() }

spec fn with_post_init<'a>(ctx: ImplContext<'a>, b: bool) -> ImplContext<'a> {
    ImplContext { has_post_init: b, ..ctx }
}

spec fn the_post_init<'a>(input: DataType<'a>, ctx: ImplContext<'a>) -> Option<Toks> {
    // `return expr` replaces the whole body: no parent is poured after it [C08]
    if k_is_from(ctx.kind) || ctx.struct_attr.quick_return is Some { None } else { spec_post_init(input, ctx) }
}

// the one impl generated for (input, ctx): trait chosen by (kind, fallible); Ok-wrapping body iff TryFrom / TryInto
spec fn spec_impl<'a>(input: DataType<'a>, ctx0: ImplContext<'a>) -> Toks {
    let post = the_post_init(input, ctx0);
    let ctx = with_post_init(ctx0, post is Some);
    let q = qparams(input, ctx);
    let pre = opt_toks(spec_pre_init(ctx0));
    let err = declared_err(ctx.struct_attr.err_ty->0);
    match (ctx.kind, ctx.fallible) {
        (Kind::FromOwned, false) | (Kind::FromRef, false) => spec_from_impl(q, pre, spec_main(ctx)),
        (Kind::FromOwned, true) | (Kind::FromRef, true) => spec_try_from_impl(q, err, pre, spec_main_ok(ctx)),
        (Kind::OwnedInto, false) | (Kind::RefInto, false) => spec_into_impl(q, pre, spec_main(ctx), post),
        (Kind::OwnedInto, true) | (Kind::RefInto, true) => spec_try_into_impl(q, err, pre, spec_main_ok(ctx), post),
        (Kind::OwnedIntoExisting, false) | (Kind::RefIntoExisting, false) => spec_into_existing_impl(q, pre, spec_main(ctx), post),
        (Kind::OwnedIntoExisting, true) | (Kind::RefIntoExisting, true) => spec_try_into_existing_impl(q, err, pre, spec_main(ctx), post),
    }
}

//@fn expand.rs quote_trait
//@props C04,C07,C08,C17
//@spec
    requires
        old(ctx).fallible ==> old(ctx).struct_attr.err_ty is Some, // #fallible-has-err_ty [C16]
        body_pre(*old(ctx)), // #body-preconditions [C16]
    ensures
        r@ =~= spec_impl(*input, *old(ctx)), // #kind-to-trait
        *final(ctx) == with_post_init(*old(ctx), the_post_init(*input, *old(ctx)) is Some), // #ctx-frame
//@end


// ---------------------------------------------------------------- data_type_impl: one impl per (kind, fallibility, instruction) (C04)
//@assume U2 attr.rs DataTypeAttrs::iter_for_kind_core

//@fn ast.rs DataType::get_ident
//@props C04
//@spec
    ensures *r == (match *self { DataType::Struct(s) => *s.ident, DataType::Enum(e) => *e.ident }), // #own-name
//@end
//@fn ast.rs DataType::get_attrs
//@props C04
//@spec
    ensures *r == dt_attrs(*self), // #own-attrs
//@end

spec fn dt_ident<'a>(d: DataType<'a>) -> Ident { match d { DataType::Struct(s) => *s.ident, DataType::Enum(e) => *e.ident } }
spec fn dt_impl_type<'a>(d: DataType<'a>) -> ImplType { match d { DataType::Struct(_) => ImplType::Struct, DataType::Enum(_) => ImplType::Enum } }

// the conversion context of one requested impl: From kinds build the deriving type from the counterpart, the others the reverse
spec fn mk_ctx<'a>(input: &'a DataType<'a>, c: &'a TraitAttrCore, k: Kind, f: bool, ty: &'a TokenStream) -> ImplContext<'a> {
    ImplContext {
        input, impl_type: dt_impl_type(*input), struct_attr: c, kind: k,
        dst_ty: if k_is_from(k) { ty } else { &c.ty.path },
        src_ty: if k_is_from(k) { &c.ty.path } else { ty },
        has_post_init: false, fallible: f,
    }
}
spec fn mk_ctx_fn<'a>(input: &'a DataType<'a>, k: Kind, f: bool, ty: &'a TokenStream) -> spec_fn(&'a TraitAttrCore) -> ImplContext<'a> {
    |c: &'a TraitAttrCore| mk_ctx(input, c, k, f, ty)
}
// the instructions requesting (k, f), in the order written
spec fn ctxs_for<'a>(input: &'a DataType<'a>, k: Kind, f: bool, ty: &'a TokenStream) -> Seq<ImplContext<'a>> {
    sfilter(refs(dt_attrs(*input).attrs@), p_tkind(k, f)).map_values(tcore_of()).map_values(mk_ctx_fn(input, k, f, ty))
}
spec fn all_ctxs<'a>(input: &'a DataType<'a>, ty: &'a TokenStream) -> Seq<ImplContext<'a>> {
    Seq::<ImplContext>::empty()
    + ctxs_for(input, Kind::FromOwned, false, ty) + ctxs_for(input, Kind::FromOwned, true, ty)
    + ctxs_for(input, Kind::FromRef, false, ty) + ctxs_for(input, Kind::FromRef, true, ty)
    + ctxs_for(input, Kind::OwnedInto, false, ty) + ctxs_for(input, Kind::OwnedInto, true, ty)
    + ctxs_for(input, Kind::RefInto, false, ty) + ctxs_for(input, Kind::RefInto, true, ty)
    + ctxs_for(input, Kind::OwnedIntoExisting, false, ty) + ctxs_for(input, Kind::OwnedIntoExisting, true, ty)
    + ctxs_for(input, Kind::RefIntoExisting, false, ty) + ctxs_for(input, Kind::RefIntoExisting, true, ty)
}
spec fn impl_of<'a>(input: &'a DataType<'a>) -> spec_fn(ImplContext<'a>) -> Toks { |c: ImplContext<'a>| spec_impl(*input, c) }
spec fn ctx_ok<'a>(c: ImplContext<'a>) -> bool { (c.fallible ==> c.struct_attr.err_ty is Some) && body_pre(c) }

//@fn expand.rs data_type_impl
//@props C04,C16
//@attr #[verifier::rlimit(2000)]
//@uses flat_lemmas::group_flat, flat_lemmas::group_seq, ts_axioms::axiom_token_stream_is_its_tokens
//@spec
    requires
        forall|j: int| 0 <= j < dt_attrs(input).attrs@.len() ==> ((#[trigger] dt_attrs(input).attrs@[j]).fallible ==> dt_attrs(input).attrs@[j].core.err_ty is Some), // #fallible-instructions-declare-an-error-type [C16]
        // for every impl that can be requested: the body builders' preconditions hold
        forall|j: int| #![trigger dt_attrs(input).attrs@[j]] 0 <= j < dt_attrs(input).attrs@.len() ==> (forall|k: Kind, f: bool, ty: TokenStream|
            appl(dt_attrs(input).attrs@[j].applicable_to, k) && f == dt_attrs(input).attrs@[j].fallible
            ==> body_pre(#[trigger] mk_ctx(&input, &dt_attrs(input).attrs@[j].core, k, f, &ty))), // #body-preconditions-for-every-requested-impl [C16]
    ensures
        forall|ty: TokenStream| ty@ == dt_ident(input).toks() ==> r@ == flat(#[trigger] all_ctxs(&input, &ty).map_values(impl_of(&input))), // #one-impl-per-requested-kind-fallibility-instruction
//@closure 0
    |struct_attr: &TraitAttrCore| -> (r: ImplContext) ensures r == mk_ctx(&input, struct_attr, Kind::FromOwned, false, &ty)
//@closure 1
    |struct_attr: &TraitAttrCore| -> (r: ImplContext) ensures r == mk_ctx(&input, struct_attr, Kind::FromOwned, true, &ty)
//@closure 2
    |struct_attr: &TraitAttrCore| -> (r: ImplContext) ensures r == mk_ctx(&input, struct_attr, Kind::FromRef, false, &ty)
//@closure 3
    |struct_attr: &TraitAttrCore| -> (r: ImplContext) ensures r == mk_ctx(&input, struct_attr, Kind::FromRef, true, &ty)
//@closure 4
    |struct_attr: &TraitAttrCore| -> (r: ImplContext) ensures r == mk_ctx(&input, struct_attr, Kind::OwnedInto, false, &ty)
//@closure 5
    |struct_attr: &TraitAttrCore| -> (r: ImplContext) ensures r == mk_ctx(&input, struct_attr, Kind::OwnedInto, true, &ty)
//@closure 6
    |struct_attr: &TraitAttrCore| -> (r: ImplContext) ensures r == mk_ctx(&input, struct_attr, Kind::RefInto, false, &ty)
//@closure 7
    |struct_attr: &TraitAttrCore| -> (r: ImplContext) ensures r == mk_ctx(&input, struct_attr, Kind::RefInto, true, &ty)
//@closure 8
    |struct_attr: &TraitAttrCore| -> (r: ImplContext) ensures r == mk_ctx(&input, struct_attr, Kind::OwnedIntoExisting, false, &ty)
//@closure 9
    |struct_attr: &TraitAttrCore| -> (r: ImplContext) ensures r == mk_ctx(&input, struct_attr, Kind::OwnedIntoExisting, true, &ty)
//@closure 10
    |struct_attr: &TraitAttrCore| -> (r: ImplContext) ensures r == mk_ctx(&input, struct_attr, Kind::RefIntoExisting, false, &ty)
//@closure 11
    |struct_attr: &TraitAttrCore| -> (r: ImplContext) ensures r == mk_ctx(&input, struct_attr, Kind::RefIntoExisting, true, &ty)
//@closure 12
    |mut ctx: ImplContext| -> (r: TokenStream) requires ctx_ok(ctx) ensures r@ == spec_impl(input, ctx)
//@end


// ---------------------------------------------------------------- the entry point: parse, validate, emit (C04, C16)
// syn's input AST, as far as `derive` and the two `from_syn` look at it (ASSUMED shapes of the dependency's types)
pub struct Attribute { _p: ::core::marker::PhantomData<()> }
pub struct SynVariant { _p: ::core::marker::PhantomData<()> }
pub struct FieldsNamed { _p: ::core::marker::PhantomData<()> }
pub struct FieldsUnnamed { _p: ::core::marker::PhantomData<()> }
pub struct DataUnion { _p: ::core::marker::PhantomData<()> }
pub enum Fields { Named(FieldsNamed), Unnamed(FieldsUnnamed), Unit }
pub struct DataStruct { pub fields: Fields }
pub struct DataEnum { pub variants: Punctuated<SynVariant, Comma> }
pub enum Data { Struct(DataStruct), Enum(DataEnum), Union(DataUnion) }
pub struct DeriveInput { pub attrs: Vec<Attribute>, pub ident: Ident, pub generics: Generics, pub data: Data }

impl Error {
    #[verifier::external_body]
    pub fn new_spanned(tokens: &DeriveInput, message: &str) -> (r: Error) { unimplemented!() }
}

//@item ast.rs Context
impl Default for Context {
    #[verifier::external_body]
    fn default() -> (r: Context) { unimplemented!() }
}

// what the (unreachable for the verifier: syn ParseStream, FnMut closures) front-ends produce: uninterpreted relations
pub uninterp spec fn parsed_type_attrs(attrs: Seq<Attribute>, out: DataTypeAttrs) -> bool;
// whether unknown instructions are reported (`allow_unknown` absent): a function of the type-level attributes
pub uninterp spec fn spec_bark(attrs: Seq<Attribute>) -> bool;
pub uninterp spec fn parsed_fields(fields: Fields, bark: bool, out: Seq<Field>) -> bool;
pub uninterp spec fn parsed_variants(variants: Seq<SynVariant>, bark: bool, out: Seq<Variant>) -> bool;

mod attr {
    use super::*;
    //@stub attr.rs get_data_type_attrs ::= fn get_data_type_attrs(input: &[Attribute]) -> Result<(DataTypeAttrs, bool)>
    #[verifier::external_body]
    pub fn get_data_type_attrs(input: &Vec<Attribute>) -> (r: Result<(DataTypeAttrs, bool)>)
        ensures r is Ok ==> (parsed_type_attrs(input@, r->Ok_0.0) && r->Ok_0.1 == spec_bark(input@)),
    { unimplemented!() }
}

impl Field {
    //@stub ast.rs Field::multiple_from_syn ::= fn multiple_from_syn(ctx: &mut Context, fields: &'a Fields, bark: bool) -> Result<Vec<Self>>
    #[verifier::external_body]
    fn multiple_from_syn(ctx: &mut Context, fields: &Fields, bark: bool) -> (r: Result<Vec<Field>>)
        ensures r is Ok ==> parsed_fields(*fields, bark, r->Ok_0@),
    { unimplemented!() }
}
impl Variant {
    //@stub ast.rs Variant::multiple_from_syn ::= fn multiple_from_syn(variants: &'a Punctuated<syn::Variant, Comma>, bark: bool) -> Result<Vec<Self>>
    #[verifier::external_body]
    fn multiple_from_syn(variants: &Punctuated<SynVariant, Comma>, bark: bool) -> (r: Result<Vec<Variant>>)
        ensures r is Ok ==> parsed_variants(variants.pseq(), bark, r->Ok_0@),
    { unimplemented!() }
}

// the deriving type's own name, generics and shape are taken from the item the attribute sits on; its instructions and members
// are what the front-ends parsed
spec fn struct_of<'a>(node: &'a DeriveInput, data: &'a DataStruct, s: Struct<'a>) -> bool {
    &&& *s.ident == node.ident
    &&& *s.generics == node.generics
    &&& s.named_fields == (data.fields is Named)
    &&& s.unit == (data.fields is Unit)
    &&& parsed_type_attrs(node.attrs@, s.attrs)
    &&& parsed_fields(data.fields, spec_bark(node.attrs@), s.fields@)
}
spec fn enum_of<'a>(node: &'a DeriveInput, data: &'a DataEnum, e: Enum<'a>) -> bool {
    &&& *e.ident == node.ident
    &&& *e.generics == node.generics
    &&& parsed_type_attrs(node.attrs@, e.attrs)
    &&& parsed_variants(data.variants.pseq(), spec_bark(node.attrs@), e.variants@)
}

//@fn ast.rs Struct::from_syn
//@props C04,C11
//@spec
    ensures
        r is Ok ==> struct_of(node, data, r->Ok_0), // #own-name-generics-shape-from-the-item
//@end

//@fn ast.rs Enum::from_syn
//@props C04,C11
//@spec
    ensures r is Ok ==> enum_of(node, data, r->Ok_0), // #own-name-generics-from-the-item
//@end

// what validation has to establish for the emitters (everything `data_type_impl` requires).  ASSUMED of `validate`
// (HashMap<String, Span>, format!, generic loops: outside the verifier); TESTED by the C16 ledger.
spec fn emit_pre<'a>(input: DataType<'a>) -> bool {
    &&& forall|j: int| 0 <= j < dt_attrs(input).attrs@.len() ==> ((#[trigger] dt_attrs(input).attrs@[j]).fallible ==> dt_attrs(input).attrs@[j].core.err_ty is Some)
    &&& forall|j: int| #![trigger dt_attrs(input).attrs@[j]] 0 <= j < dt_attrs(input).attrs@.len() ==> (forall|k: Kind, f: bool, ty: TokenStream|
            appl(dt_attrs(input).attrs@[j].applicable_to, k) && f == dt_attrs(input).attrs@[j].fallible
            ==> body_pre(#[trigger] mk_ctx(&input, &dt_attrs(input).attrs@[j].core, k, f, &ty)))
}
//@stub validate.rs validate ::= fn validate(input: &DataType) -> Result<()>
#[verifier::external_body]
fn validate(input: &DataType) -> (r: Result<()>)
    ensures r is Ok ==> emit_pre(*input),
{ unimplemented!() }

// all impls of an input, in the fixed order of data_type_impl
spec fn all_impls<'a>(input: DataType<'a>, r: Toks) -> bool {
    forall|ty: TokenStream| ty@ == dt_ident(input).toks() ==> r == flat(#[trigger] all_ctxs(&input, &ty).map_values(impl_of(&input)))
}

//@fn expand.rs derive
//@props C04,C16
//@spec
    ensures
        // accepted: the item is a struct or an enum, its front-end view passed validation, and the result is exactly its impls
        r is Ok ==> (match node.data {
            Data::Struct(data) => exists|s: Struct| struct_of(node, &data, s) && emit_pre(DataType::Struct(&s)) && all_impls(DataType::Struct(&s), r->Ok_0@),
            Data::Enum(data) => exists|e: Enum| enum_of(node, &data, e) && emit_pre(DataType::Enum(&e)) && all_impls(DataType::Enum(&e), r->Ok_0@),
            Data::Union(_) => false,
        }), // #accepted-input-yields-exactly-its-impls
//@end

} // verus!
