#![allow(unused)]
use ::vstd::prelude::*;
//@quote-macros
//@include prelude/tokens.rs
//@include prelude/deps.rs
//@include prelude/containers.rs
//@include prelude/option.rs
//@include prelude/strings.rs
verus! {
broadcast use str_axioms::axiom_str_eq_is_view_eq;
//@include units/types.inc
//@include units/spec_common.inc
} // verus!
//@include units/clones.inc
verus! {

// =====================================================================================================
// U2 — lookups: dedicated-then-default, fallback chain
// =====================================================================================================

// `==` on counterpart types: Verus checks the real `eq` body against eq_spec (vstd's contract for PartialEq::eq)
impl ::vstd::std_specs::cmp::PartialEqSpecImpl for TypePath {
    open spec fn obeys_eq_spec() -> bool { true }
    open spec fn eq_spec(&self, other: &Self) -> bool { ty_eq(*self, *other) }
}
//@fn attr.rs <TypePath as PartialEq>::eq
//@props C05,C06
//@spec
    ensures r == ty_eq(*self, *other), // #counterpart-equality
//@end

//@include units/spec_lookups.inc
//@include units/index_impl.inc

//@fn attr.rs MemberAttrs::child
//@props C03,C05,C06
//@spec
    ensures r == spec_child(self, *container_ty), // #dedicated-then-default
//@closure 0
    |x: &&ChildAttr| -> (r: bool) ensures r == p_child(*container_ty, true)(*x)
//@closure 1
    || -> (r: Option<&ChildAttr>) ensures r == first(refs(self.child_attrs@), p_child(*container_ty, false))
//@closure 2
    |x: &&ChildAttr| -> (r: bool) ensures r == p_child(*container_ty, false)(*x)
//@end

//@fn attr.rs MemberAttrs::lit
//@props C09,C05,C06
//@spec
    ensures r == spec_lit(self, *container_ty), // #dedicated-then-default
//@closure 0
    |x: &&LitAttr| -> (r: bool) ensures r == p_lit(*container_ty, true)(*x)
//@closure 1
    || -> (r: Option<&LitAttr>) ensures r == first(refs(self.lit_attrs@), p_lit(*container_ty, false))
//@closure 2
    |x: &&LitAttr| -> (r: bool) ensures r == p_lit(*container_ty, false)(*x)
//@end

//@fn attr.rs MemberAttrs::pat
//@props C09,C05,C06
//@spec
    ensures r == spec_pat(self, *container_ty), // #dedicated-then-default
//@closure 0
    |x: &&PatAttr| -> (r: bool) ensures r == p_pat(*container_ty, true)(*x)
//@closure 1
    || -> (r: Option<&PatAttr>) ensures r == first(refs(self.pat_attrs@), p_pat(*container_ty, false))
//@closure 2
    |x: &&PatAttr| -> (r: bool) ensures r == p_pat(*container_ty, false)(*x)
//@end

//@fn attr.rs MemberAttrs::type_hint
//@props C02,C05,C06,C16
//@spec
    ensures r == spec_type_hint(self, *container_ty), // #dedicated-then-default
//@closure 0
    |x: &&VariantTypeHintAttr| -> (r: bool) ensures r == p_hint(*container_ty, true)(*x)
//@closure 1
    || -> (r: Option<&VariantTypeHintAttr>) ensures r == first(refs(self.type_hint_attrs@), p_hint(*container_ty, false))
//@closure 2
    |x: &&VariantTypeHintAttr| -> (r: bool) ensures r == p_hint(*container_ty, false)(*x)
//@end

//@fn attr.rs DataTypeAttrs::where_attr
//@props C11,C06
//@spec
    ensures r == spec_where(self, *container_ty), // #dedicated-then-default
//@closure 0
    |x: &&WhereAttr| -> (r: bool) ensures r == p_where(*container_ty, true)(*x)
//@closure 1
    || -> (r: Option<&WhereAttr>) ensures r == first(refs(self.where_attrs@), p_where(*container_ty, false))
//@closure 2
    |x: &&WhereAttr| -> (r: bool) ensures r == p_where(*container_ty, false)(*x)
//@end

//@fn attr.rs DataTypeAttrs::child_parents_attr
//@props C03,C06,C16
//@spec
    ensures r == spec_child_parents(self, *container_ty), // #dedicated-then-default
//@closure 0
    |x: &&ChildParentsAttr| -> (r: bool) ensures r == p_child_parents(*container_ty, true)(*x)
//@closure 1
    || -> (r: Option<&ChildParentsAttr>) ensures r == first(refs(self.child_parents_attrs@), p_child_parents(*container_ty, false))
//@closure 2
    |x: &&ChildParentsAttr| -> (r: bool) ensures r == p_child_parents(*container_ty, false)(*x)
//@end


//@fn attr.rs MemberAttrs::ghost
//@props C05,C06,C12,C16,C01
//@spec
    ensures r == spec_ghost(self, *container_ty, *kind), // #dedicated-then-default-for-kind
//@closure 0
    |x: &&GhostAttr| -> (r: bool) ensures r == p_ghost(*container_ty, *kind, true)(*x)
//@closure 1
    || -> (r: Option<&GhostAttr>) ensures r == first(refs(self.ghost_attrs@), p_ghost(*container_ty, *kind, false))
//@closure 2
    |x: &&GhostAttr| -> (r: bool) ensures r == p_ghost(*container_ty, *kind, false)(*x)
//@closure 3
    |x: &GhostAttr| -> (r: &FieldGhostAttrCore) ensures *r == x.attr
//@end

//@fn attr.rs DataTypeAttrs::ghosts_attr
//@props C06,C12,C01
//@spec
    ensures r == spec_ghosts_attr(self, *container_ty, *kind), // #dedicated-then-default-for-kind
//@closure 0
    |x: &&GhostsAttr| -> (r: bool) ensures r == p_ghosts(*container_ty, *kind, true)(*x)
//@closure 1
    || -> (r: Option<&GhostsAttr>) ensures r == first(refs(self.ghosts_attrs@), p_ghosts(*container_ty, *kind, false))
//@closure 2
    |x: &&GhostsAttr| -> (r: bool) ensures r == p_ghosts(*container_ty, *kind, false)(*x)
//@closure 3
    |x: &GhostsAttr| -> (r: &StructGhostAttrCore) ensures *r == x.attr
//@end

//@fn attr.rs MemberAttrs::parameterized_parent_attr
//@props C03,C06
//@spec
    ensures r == spec_pparent(self, *container_ty), // #dedicated-then-default
//@closure 0
    |x: &&ParentAttr| -> (r: bool) ensures r == p_pparent(*container_ty, true)(*x)
//@closure 1
    || -> (r: Option<&ParentAttr>) ensures r == first(refs(self.parent_attrs@), p_pparent(*container_ty, false))
//@closure 2
    |x: &&ParentAttr| -> (r: bool) ensures r == p_pparent(*container_ty, false)(*x)
//@end



//@fn attr.rs MemberAttrs::has_parent_attr
//@props C03,C06,C16
//@spec
    ensures r == (first(refs(self.parent_attrs@), q_parent(*container_ty)) is Some), // #any-default-or-dedicated
//@closure 0
    |x: &ParentAttr| -> (r: bool) ensures r == q_parent(*container_ty)(x)
//@end

//@fn attr.rs MemberAttrs::has_parameterless_parent_attr
//@props C03,C06
//@spec
    ensures r == (first(refs(self.parent_attrs@), q_bare_parent(*container_ty)) is Some), // #any-bare-default-or-dedicated
//@closure 0
    |x: &ParentAttr| -> (r: bool) ensures r == q_bare_parent(*container_ty)(x)
//@end

//@fn attr.rs MemberAttrs::iter_for_kind
//@props C05,C12,C16
//@spec
    ensures r.items() == sfilter(refs(self.attrs@), p_kind(*kind, fallible)), // #exactly-the-entries-of-that-kind
//@closure 0
    move |x: &&MemberAttr| -> (r: bool) ensures r == p_kind(*kind, fallible)(*x)
//@end

//@fn attr.rs DataTypeAttrs::iter_for_kind
//@props C04,C12,C16
//@spec
    ensures r.items() == sfilter(refs(self.attrs@), p_tkind(*kind, fallible)), // #exactly-the-instructions-of-that-kind
//@closure 0
    move |x: &&TraitAttr| -> (r: bool) ensures r == p_tkind(*kind, fallible)(*x)
//@end


//@fn attr.rs MemberAttrs::iter_for_kind_core
//@props C05,C12,C16
//@spec
    ensures r.items() == sfilter(refs(self.attrs@), p_kind(*kind, fallible)).map_values(core_of()), // #cores-of-that-kind
//@closure 0
    |x: &MemberAttr| -> (r: &MemberAttrCore) ensures r == core_of()(x)
//@end

//@fn attr.rs DataTypeAttrs::iter_for_kind_core
//@props C04,C12,C16
//@spec
    ensures r.items() == sfilter(refs(self.attrs@), p_tkind(*kind, fallible)).map_values(tcore_of()), // #cores-of-that-kind
//@closure 0
    |x: &TraitAttr| -> (r: &TraitAttrCore) ensures r == tcore_of()(x)
//@end

//@fn attr.rs MemberAttrs::field_attr
//@props C05,C06,C16
//@spec
    ensures r == spec_field_attr(self, *kind, fallible, *container_ty), // #dedicated-then-default-of-that-kind
//@closure 0
    |x: &&MemberAttr| -> (r: bool) ensures r == p_mattr(*container_ty, true)(*x)
//@closure 1
    || -> (r: Option<&MemberAttr>) ensures r == first(sfilter(refs(self.attrs@), p_kind(*kind, fallible)), p_mattr(*container_ty, false))
//@closure 2
    |x: &&MemberAttr| -> (r: bool) ensures r == p_mattr(*container_ty, false)(*x)
//@end

//@fn attr.rs MemberAttrs::field_attr_core
//@props C05,C06,C16
//@spec
    ensures r == spec_field_core(self, *kind, fallible, *container_ty), // #dedicated-then-default-of-that-kind
//@closure 0
    |x: &&MemberAttrCore| -> (r: bool) ensures r == p_mcore(*container_ty, true)(*x)
//@closure 1
    || -> (r: Option<&MemberAttrCore>) ensures r == first(sfilter(refs(self.attrs@), p_kind(*kind, fallible)).map_values(core_of()), p_mcore(*container_ty, false))
//@closure 2
    |x: &&MemberAttrCore| -> (r: bool) ensures r == p_mcore(*container_ty, false)(*x)
//@end


// ---------------------------------------------------------------- the fallback chain (C05)
//@fn attr.rs MemberAttrs::applicable_attr
//@props C05,C06,C12
//@spec
    ensures r == spec_applicable(self, *kind, fallible, *container_ty), // #most-specific-applicable-instruction-wins
//@eta ApplicableAttr::Ghost :: &FieldGhostAttrCore -> ApplicableAttr
//@eta ApplicableAttr::Field :: &MemberAttrCore -> ApplicableAttr
//@closure 0
    || -> (r: Option<ApplicableAttr>) ensures r == (match spec_field_chain(self, *kind, fallible, *container_ty) { Some(c) => Some(ApplicableAttr::Field(c)), None => None })
//@closure 1
    || -> (r: Option<&MemberAttrCore>) ensures r == (if fallible { spec_field_core(self, *kind, false, *container_ty) } else { None })
//@closure 2
    || -> (r: Option<&MemberAttrCore>) ensures r == (if *kind is OwnedIntoExisting { spec_field_core(self, Kind::OwnedInto, fallible, *container_ty) } else { None })
//@closure 3
    || -> (r: Option<&MemberAttrCore>) ensures r == (if *kind is OwnedIntoExisting && fallible { spec_field_core(self, Kind::OwnedInto, false, *container_ty) } else { None })
//@closure 4
    || -> (r: Option<&MemberAttrCore>) ensures r == (if *kind is RefIntoExisting { spec_field_core(self, Kind::RefInto, fallible, *container_ty) } else { None })
//@closure 5
    || -> (r: Option<&MemberAttrCore>) ensures r == (if *kind is RefIntoExisting && fallible { spec_field_core(self, Kind::RefInto, false, *container_ty) } else { None })
//@end

//@fn attr.rs MemberAttrs::applicable_field_attr
//@props C05,C15,C16
//@spec
    ensures r == spec_applicable_field(self, *kind, fallible, *container_ty), // #validation-view-of-the-chain
//@closure 0
    || -> (r: Option<&MemberAttr>) ensures r == (if *kind is OwnedIntoExisting { spec_field_attr(self, Kind::OwnedInto, fallible, *container_ty) } else { None })
//@closure 1
    || -> (r: Option<&MemberAttr>) ensures r == (if *kind is RefIntoExisting { spec_field_attr(self, Kind::RefInto, fallible, *container_ty) } else { None })
//@end

//@fn attr.rs ParentChildField::get_for_kind
//@props C05,C03,C07,C01
//@spec
    ensures r == spec_pcf_for_kind(self, *kind), // #first-applicable-else-into
    decreases (if k_is_into_existing(*kind) { 1int } else { 0int }),
//@closure 0
    |x: &&ParentChildFieldAttr| -> (r: bool) ensures r == p_pcf(*kind)(*x)
//@closure 1
    || -> (r: Option<&ParentChildFieldAttr>) ensures r == (if *kind is OwnedIntoExisting { first(refs(self.attrs@), p_pcf(Kind::OwnedInto)) } else { None })
//@closure 2
    || -> (r: Option<&ParentChildFieldAttr>) ensures r == (if *kind is RefIntoExisting { first(refs(self.attrs@), p_pcf(Kind::RefInto)) } else { None })
//@end

} // verus!
