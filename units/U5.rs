#![allow(unused)]
use ::vstd::prelude::*;
//@quote-macros
//@include prelude/tokens.rs
//@include prelude/deps.rs
//@include prelude/containers.rs
//@include prelude/option.rs
//@include prelude/strings.rs
verus! {
broadcast use str_axioms::axiom_str_eq_is_view_eq;
//@include units/types.inc
//@include units/spec_common.inc
} // verus!
//@include units/clones.inc
verus! {
//@include units/spec_lookups.inc
//@include units/spec_lines.inc

// =====================================================================================================
// U5 — per-field lines of struct conversions
// =====================================================================================================

// ---- callee contracts proved in other units, reused here
//@assume U4 attr.rs Kind::is_ref
//@assume U4 attr.rs Kind::is_from
//@assume U4 attr.rs Kind::is_into_existing
//@assume U4 expand.rs ImplType::is_variant
//@assume U4 expand.rs quote_action
//@assume U2 attr.rs MemberAttrs::applicable_attr
//@assume U2 attr.rs MemberAttrs::child
//@assume U2 attr.rs MemberAttrs::has_parent_attr
//@assume U2 attr.rs ParentChildField::get_for_kind

//@fn attr.rs GhostIdent::get_ident
//@props C01,C16
//@spec
    requires self is Member, // #struct-level-ghosts-name-a-member [C16]
    ensures *r == self->Member_0, // #the-member
//@end

//@fn expand.rs ApplicableAttr::get_ident
//@props C01,C16
//@spec
    requires aa_member(*self) is Some, // #instruction-names-the-counterpart-field [C16]
    ensures *r == aa_member(*self)->0, // #designated-member
//@end

//@fn expand.rs ApplicableAttr::has_action
//@props C01,C02
//@spec
    ensures r == (aa_action(*self) is Some), // #has-inline-expression
//@closure 0
    |x: &ParentChildFieldAttr| -> (r: bool) ensures r == (x.action is Some)
//@end

//@fn expand.rs ApplicableAttr::get_field_name_or
//@props C01,C02,C16
//@spec
    requires !(self is Ghost), // #not-a-ghost [C16]
    ensures
        *r == (match aa_member(*self) {
            Some(m) => m,
            None => match *self { ApplicableAttr::ParentChildField(p, _) => p.this_member, _ => *field },
        }), // #renamed-member-else-own
//@end

//@fn expand.rs ApplicableAttr::get_action_or
//@props C01,C02,C10,C16
//@spec
    requires
        !(self is Ghost), // #not-a-ghost [C16]
        aa_action(*self) is None ==> or.requires(()),
    ensures
        aa_action(*self) is Some ==> r@ == spec_action(aa_action(*self)->0@, field_path.toks(), *ctx), // #inline-expression-with-tilde-path [C01,C10]
        aa_action(*self) is None ==> or.ensures((), r), // #else-the-default-source
//@end


//@fn expand.rs ApplicableAttr::get_stuff
//@props C01,C02,C10,C16
//@spec
    requires
        forall|m: Member| #[trigger] field_path.requires((&m,)),
        or.requires(()),
        self is Ghost ==> aa_action(*self) is Some, // #ghost-has-default-value [C16]
    ensures
        self is Ghost ==> r@ == spec_action(aa_action(*self)->0@, nil(), *ctx), // #ghost-default [C01]
        !(self is Ghost) ==> get_stuff_inner_post(stuff_member(*self), aa_action(*self), obj@, field_path, or, *ctx, r@), // #counterpart-field-or-expression [C01,C02,C10]
//@closure 0 let=get_stuff
    |member: &Option<Member>, action: &Option<TokenStream>| -> (r: TokenStream)
        ensures get_stuff_inner_post(*member, *action, obj@, field_path, or, *ctx, r@)
//@closure 1
    |x: &ParentChildFieldAttr| -> (r: bool) ensures r == (x.that_member is Some)
//@closure 2
    |x: &ParentChildFieldAttr| -> (r: &Option<TokenStream>) ensures *r == x.action
//@end


// ---------------------------------------------------------------- render_struct_line (C01 C03 C07 C10 C16 C17)
// data invariant of a Field built by Field::from_syn: a positional member carries its own declaration index
spec fn field_wf(f: &Field) -> bool {
    f.member matches Member::Unnamed(i) ==> i.index as int == f.idx as int
}

spec fn line_pre<'a>(f: &'a Field, ctx: ImplContext<'a>, hint: TypeHint, idx: int, pc: Option<&'a ParentChildField>) -> bool {
    let a = line_attr(f, ctx, pc);
    let member = line_member(f, pc);
    &&& field_wf(f)
    &&& f.idx <= u32::MAX && 0 <= idx <= u32::MAX
    // into-family conversions never render ghost or #[parent] members (struct_init_block_inner skips them)
    &&& !k_is_from(ctx.kind) ==> (!(a is Some && a->0 is Ghost) && !spec_has_parent_attr(&f.attrs, ctx.struct_attr.ty))
    // a ghost member is rendered only when it has a default value
    &&& (a is Some && a->0 is Ghost) ==> aa_action(a->0) is Some
    // validate_fields / validate_variant_fields: a positional member mapped onto a named counterpart names its field
    &&& (member is Unnamed && hint is Struct && !(k_is_from(ctx.kind) && a is None && spec_has_parent_attr(&f.attrs, ctx.struct_attr.ty))) ==> (a is Some && (if k_is_from(ctx.kind) { (a->0 is Ghost) || stuff_member(a->0) is Some || aa_action(a->0) is Some } else { aa_member(a->0) is Some }))
    // enums have no post-init dialect and no into_existing line dialect
    &&& ctx.impl_type is Variant ==> (!ctx.has_post_init && !k_is_into_existing(ctx.kind) && pc is None)
}

//@fn expand.rs render_struct_line
//@props C01,C02,C03,C07,C10,C16,C17
//@attr #[verifier::spinoff_prover]
//@attr #[verifier::rlimit(3000)]
//@shard 8
//@spec
    requires
        line_pre(f, *ctx, hint, idx as int, parent_child), // #line-preconditions [C16]
    ensures
        (k_is_from(ctx.kind) && line_member(f, parent_child) is Named && line_attr(f, *ctx, parent_child) is None && !(hint is Tuple)) ==> r@ =~= spec_struct_line(f, *ctx, hint, idx as int, parent_child), // #from.named.plain.named-counterpart
        (k_is_from(ctx.kind) && line_member(f, parent_child) is Named && line_attr(f, *ctx, parent_child) is None && hint is Tuple) ==> r@ =~= spec_struct_line(f, *ctx, hint, idx as int, parent_child), // #from.named.plain.tuple-counterpart
        (k_is_from(ctx.kind) && line_member(f, parent_child) is Named && line_attr(f, *ctx, parent_child) is Some && !(hint is Tuple)) ==> r@ =~= spec_struct_line(f, *ctx, hint, idx as int, parent_child), // #from.named.instr.named-counterpart
        (k_is_from(ctx.kind) && line_member(f, parent_child) is Named && line_attr(f, *ctx, parent_child) is Some && hint is Tuple) ==> r@ =~= spec_struct_line(f, *ctx, hint, idx as int, parent_child), // #from.named.instr.tuple-counterpart
        (k_is_from(ctx.kind) && line_member(f, parent_child) is Unnamed && line_attr(f, *ctx, parent_child) is None && !(hint is Struct)) ==> r@ =~= spec_struct_line(f, *ctx, hint, idx as int, parent_child), // #from.tuple.plain.tuple-counterpart
        (k_is_from(ctx.kind) && line_member(f, parent_child) is Unnamed && line_attr(f, *ctx, parent_child) is None && hint is Struct) ==> r@ =~= spec_struct_line(f, *ctx, hint, idx as int, parent_child), // #from.tuple.plain.named-counterpart
        (k_is_from(ctx.kind) && line_member(f, parent_child) is Unnamed && line_attr(f, *ctx, parent_child) is Some) ==> r@ =~= spec_struct_line(f, *ctx, hint, idx as int, parent_child), // #from.tuple.instr
        (k_is_into(ctx.kind) && line_member(f, parent_child) is Named && line_attr(f, *ctx, parent_child) is None && (hint is Struct || hint is Unspecified)) ==> r@ =~= spec_struct_line(f, *ctx, hint, idx as int, parent_child), // #into.named.plain.named-counterpart
        (k_is_into(ctx.kind) && line_member(f, parent_child) is Named && line_attr(f, *ctx, parent_child) is None && hint is Tuple) ==> r@ =~= spec_struct_line(f, *ctx, hint, idx as int, parent_child), // #into.named.plain.tuple-counterpart
        (k_is_into(ctx.kind) && line_member(f, parent_child) is Named && line_attr(f, *ctx, parent_child) is Some && (hint is Struct || hint is Unspecified)) ==> r@ =~= spec_struct_line(f, *ctx, hint, idx as int, parent_child), // #into.named.instr.named-counterpart
        (k_is_into(ctx.kind) && line_member(f, parent_child) is Named && line_attr(f, *ctx, parent_child) is Some && hint is Tuple) ==> r@ =~= spec_struct_line(f, *ctx, hint, idx as int, parent_child), // #into.named.instr.tuple-counterpart
        (k_is_into(ctx.kind) && line_member(f, parent_child) is Unnamed && line_attr(f, *ctx, parent_child) is None && (hint is Tuple || hint is Unspecified)) ==> r@ =~= spec_struct_line(f, *ctx, hint, idx as int, parent_child), // #into.tuple.plain.tuple-counterpart
        (k_is_into(ctx.kind) && line_member(f, parent_child) is Unnamed && line_attr(f, *ctx, parent_child) is Some && (hint is Tuple || hint is Unspecified)) ==> r@ =~= spec_struct_line(f, *ctx, hint, idx as int, parent_child), // #into.tuple.instr.tuple-counterpart
        (k_is_into(ctx.kind) && line_member(f, parent_child) is Unnamed && line_attr(f, *ctx, parent_child) is Some && hint is Struct) ==> r@ =~= spec_struct_line(f, *ctx, hint, idx as int, parent_child), // #into.tuple.instr.named-counterpart
        (k_is_into_existing(ctx.kind) && line_member(f, parent_child) is Named && line_attr(f, *ctx, parent_child) is None && (hint is Struct || hint is Unspecified)) ==> r@ =~= spec_struct_line(f, *ctx, hint, idx as int, parent_child), // #existing.named.plain.named-counterpart
        (k_is_into_existing(ctx.kind) && line_member(f, parent_child) is Named && line_attr(f, *ctx, parent_child) is None && hint is Tuple) ==> r@ =~= spec_struct_line(f, *ctx, hint, idx as int, parent_child), // #existing.named.plain.tuple-counterpart
        (k_is_into_existing(ctx.kind) && line_member(f, parent_child) is Named && line_attr(f, *ctx, parent_child) is Some && (hint is Struct || hint is Unspecified)) ==> r@ =~= spec_struct_line(f, *ctx, hint, idx as int, parent_child), // #existing.named.instr.named-counterpart
        (k_is_into_existing(ctx.kind) && line_member(f, parent_child) is Named && line_attr(f, *ctx, parent_child) is Some && hint is Tuple) ==> r@ =~= spec_struct_line(f, *ctx, hint, idx as int, parent_child), // #existing.named.instr.tuple-counterpart
        (k_is_into_existing(ctx.kind) && line_member(f, parent_child) is Unnamed && line_attr(f, *ctx, parent_child) is None && (hint is Tuple || hint is Unspecified)) ==> r@ =~= spec_struct_line(f, *ctx, hint, idx as int, parent_child), // #existing.tuple.plain.tuple-counterpart
        (k_is_into_existing(ctx.kind) && line_member(f, parent_child) is Unnamed && line_attr(f, *ctx, parent_child) is Some && (hint is Tuple || hint is Unspecified)) ==> r@ =~= spec_struct_line(f, *ctx, hint, idx as int, parent_child), // #existing.tuple.instr.tuple-counterpart
        (k_is_into_existing(ctx.kind) && line_member(f, parent_child) is Unnamed && line_attr(f, *ctx, parent_child) is Some && hint is Struct) ==> r@ =~= spec_struct_line(f, *ctx, hint, idx as int, parent_child), // #existing.tuple.instr.named-counterpart
        (!k_is_from(ctx.kind) && hint is Unit) ==> r@ =~= spec_struct_line(f, *ctx, hint, idx as int, parent_child), // #unit-counterpart
//@closure 0
    |p: &ParentChildField| -> (r: &Member) ensures *r == p.this_member
//@closure 1
    |p: &ParentChildField| -> (r: ApplicableAttr) ensures r == ApplicableAttr::ParentChildField(p, ctx.kind)
//@closure 2
    || -> (r: Option<ApplicableAttr>) ensures r == spec_applicable(&f.attrs, ctx.kind, ctx.fallible, ctx.struct_attr.ty)
//@closure 3 let=get_field_path
    |x: &Member| -> (r: TokenStream) ensures r@ =~= child_prefix(&f.attrs, ctx.struct_attr.ty) + x.toks()
//@closure 4 let=get_child_field_path
    |x: &Member| -> (r: TokenStream) ensures r@ =~= (match parent_child { Some(pcf) => x.toks() + pcf.sub_path_tokens@ + p(".") + member.toks(), None => x.toks() })
//@closure 5
    || -> (r: TokenStream) ensures r@ =~= obj@ + field_path@
//@closure 6
    || -> (r: TokenStream) ensures r@ =~= obj@ + right_field_path@
//@closure 7
    || -> (r: TokenStream) ensures r@ =~= obj@ + right_field_path@
//@closure 8
    || -> (r: TokenStream) ensures r@ =~= obj@ + right_field_path@
//@closure 9
    || -> (r: &Member) ensures *r == f.member
//@closure 10
    |g: &ParentChildField| -> (r: &Member) ensures *r == g.this_member
//@closure 11
    || -> (r: _) ensures is_member(r, &or)
//@closure 12
    || -> (r: TokenStream) ensures r@ =~= obj@ + field_path@
//@closure 13
    || -> (r: TokenStream) ensures r@ =~= obj@ + right_field_path@
//@closure 14
    || -> (r: TokenStream) ensures r@ =~= obj@ + or@
//@closure 15
    || -> (r: TokenStream) ensures r@ =~= obj@ + right_field_path@
//@closure 16
    || -> (r: _) ensures is_member(r, if ctx.impl_type is Variant { &or } else { &f.member })
//@end

} // verus!
