#![allow(unused)]
use ::vstd::prelude::*;
//@quote-macros
//@include prelude/tokens.rs
//@include prelude/deps.rs
//@include prelude/containers.rs
//@include prelude/option.rs
//@include prelude/strings.rs
verus! {
broadcast use str_axioms::axiom_str_eq_is_view_eq;
//@include units/types.inc
//@include units/spec_common.inc
} // verus!
//@include units/clones.inc
verus! {
//@include units/spec_lookups.inc
//@include units/spec_lines.inc
//@include units/spec_destruct.inc
//@include units/spec_enum.inc

// =====================================================================================================
// U6 — enum arms, ghost lines
// =====================================================================================================

//@assume U4 attr.rs Kind::is_ref
//@assume U4 attr.rs Kind::is_from
//@assume U4 attr.rs Kind::is_into_existing
//@assume U4 expand.rs ImplType::is_variant
//@assume U4 expand.rs quote_action
//@assume U1 attr.rs TypeHint::maybe
//@assume U2 attr.rs MemberAttrs::applicable_attr
//@assume U2 attr.rs MemberAttrs::lit
//@assume U2 attr.rs MemberAttrs::pat
//@assume U2 attr.rs MemberAttrs::type_hint
//@assume U2 attr.rs ParentChildField::get_for_kind
//@assume U5 attr.rs GhostIdent::get_ident
//@assume U5 expand.rs ApplicableAttr::has_action
//@assume U5 expand.rs ApplicableAttr::get_field_name_or
//@assume U5 expand.rs ApplicableAttr::get_action_or
//@assume U5 expand.rs ApplicableAttr::get_stuff

// ---------------------------------------------------------------- struct-level #[ghosts(..)] entries (C01)
//@fn expand.rs render_ghost_line
//@props C01,C03,C07,C16,C17
//@spec
    requires
        !k_is_from(ctx.kind), // #ghosts-only-when-converting-into [C16]
        ghost_data.ghost_ident is Member, // #struct-level-ghosts-name-a-member [C16]
    ensures
        r@ =~= ({
            let m = ghost_data.ghost_ident->Member_0;
            let val = spec_action(ghost_data.action@, nil(), *ctx);
            let ch = match ghost_data.child_path { Some(cp) => cp.child_path.toks() + p("."), None => nil() };
            if k_is_into_existing(ctx.kind) {
                id("other") + p(".") + ch + m.toks() + p("=") + val + p(";")
            } else if ctx.has_post_init {
                // the body assigns to `obj` field by field (bare #[parent]): same dialect as into_existing [C17]
                id("obj") + p(".") + ch + m.toks() + p("=") + val + p(";")
            } else if m is Named {
                m.toks() + p(":") + val + p(",")
            } else {
                val + p(",")
            }
        // (into, post-init and into_existing write the same value to the same member path: C07)
        }), // #declared-default-to-the-named-member
//@end

// ---------------------------------------------------------------- enum-level #[ghosts(..)] entries: arms for counterpart-only variants (C02)
//@fn expand.rs render_enum_ghost_line
//@props C02,C16
//@spec
    requires
        !(ghost_data.ghost_ident matches GhostIdent::Member(Member::Unnamed(_))), // #enum-ghosts-name-a-variant [C16]
    ensures
        r@ =~= spec_enum_ghost_arm(ghost_data, *ctx), // #counterpart-only-variant-arm
//@end


// ---------------------------------------------------------------- one match arm per variant (C02 C09)
// ASSUMED (unreached callees): payload constructor and destructuring pattern of a variant rendered as a struct

//@stub expand.rs struct_init_block ::= fn struct_init_block<'a>(input: &'a Struct, ctx: &ImplContext) -> TokenStream
#[verifier::external_body]
fn struct_init_block<'a>(input: &'a Struct, ctx: &ImplContext) -> (r: TokenStream)
    ensures r@ == spec_struct_init(sview(*input), cview(*ctx)),
{ unimplemented!() }

//@stub expand.rs variant_destruct_block ::= fn variant_destruct_block(input: &Struct, ctx: &ImplContext) -> TokenStream
#[verifier::external_body]
fn variant_destruct_block(input: &Struct, ctx: &ImplContext) -> (r: TokenStream)
    ensures r@ == spec_variant_destruct(sview(*input), cview(*ctx)),
{ unimplemented!() }

//@fn expand.rs render_enum_line
//@props C02,C09,C16
//@attr #[verifier::rlimit(1000)]
//@spec
    requires
        enum_line_pre(v, *ctx), // #arm-shape-exists-and-carries-what-it-needs [C16]
    ensures
        r@ =~= spec_variant_arm(v, *ctx), // #variant-arm
//@closure 0
    |x: &VariantTypeHintAttr| -> (r: TypeHint) ensures r == x.type_hint
//@closure 1
    |x: &ApplicableAttr| -> (r: bool) ensures r == (aa_action(*x) is Some)
//@closure 2
    || -> (r: TokenStream) ensures r@ =~= dst@ + p("::") + ident.toks() + init@
//@closure 3
    |x: &Member| -> (r: TokenStream) ensures r@ =~= x.toks() + init@
//@closure 4
    || -> (r: _) ensures is_member(r, &member)
//@end

} // verus!
