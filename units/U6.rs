#![allow(unused)]
use vstd::prelude::*;
//@quote-macros
//@include prelude/tokens.rs
//@include prelude/deps.rs
//@include prelude/containers.rs
//@include prelude/option.rs
//@include prelude/strings.rs
verus! {
broadcast use str_axioms::axiom_str_eq_is_view_eq;
//@include units/types.inc
//@include units/spec_common.inc
} // verus!
//@include units/clones.inc
verus! {
//@include units/spec_lookups.inc
//@include units/spec_lines.inc

// =====================================================================================================
// U6 — enum arms, ghost lines
// =====================================================================================================

//@assume U4 attr.rs Kind::is_ref
//@assume U4 attr.rs Kind::is_from
//@assume U4 attr.rs Kind::is_into_existing
//@assume U4 expand.rs ImplType::is_variant
//@assume U4 expand.rs quote_action
//@assume U1 attr.rs TypeHint::maybe
//@assume U2 attr.rs MemberAttrs::applicable_attr
//@assume U2 attr.rs MemberAttrs::lit
//@assume U2 attr.rs MemberAttrs::pat
//@assume U2 attr.rs MemberAttrs::type_hint
//@assume U2 attr.rs ParentChildField::get_for_kind
//@assume U5 attr.rs GhostIdent::get_ident
//@assume U5 expand.rs ApplicableAttr::has_action
//@assume U5 expand.rs ApplicableAttr::get_field_name_or
//@assume U5 expand.rs ApplicableAttr::get_action_or
//@assume U5 expand.rs ApplicableAttr::get_stuff

// ---------------------------------------------------------------- struct-level #[ghosts(..)] entries (C01)
//@fn expand.rs render_ghost_line
//@props C01,C03,C16
//@spec
    requires
        !k_is_from(ctx.kind), // #ghosts-only-when-converting-into [C16]
        ghost_data.ghost_ident is Member, // #struct-level-ghosts-name-a-member [C16]
    ensures
        r@ =~= ({
            let m = ghost_data.ghost_ident->Member_0;
            let val = spec_action(ghost_data.action@, nil(), *ctx);
            let ch = match ghost_data.child_path { Some(cp) => cp.child_path.toks() + p("."), None => nil() };
            if k_is_into_existing(ctx.kind) {
                id("other") + p(".") + ch + m.toks() + p("=") + val + p(";")
            } else if m is Named {
                m.toks() + p(":") + val + p(",")
            } else {
                val + p(",")
            }
        }), // #declared-default-to-the-named-member
//@end

// ---------------------------------------------------------------- enum-level #[ghosts(..)] entries: arms for counterpart-only variants (C02)
//@fn expand.rs render_enum_ghost_line
//@props C02,C16
//@spec
    requires
        !(ghost_data.ghost_ident matches GhostIdent::Member(Member::Unnamed(_))), // #enum-ghosts-name-a-variant [C16]
    ensures
        r@ =~= (if k_is_from(ctx.kind) {
            ctx.src_ty@ + p("::") + (match ghost_data.ghost_ident { GhostIdent::Member(m) => m.toks(), GhostIdent::Destruction(d) => d@ })
            + p("=>") + spec_action(ghost_data.action@, nil(), *ctx) + p(",")
        } else {
            nil()
        }), // #counterpart-only-variant-arm
//@end


// ---------------------------------------------------------------- one match arm per variant (C02 C09)
// ASSUMED (unreached callees): payload constructor and destructuring pattern of a variant rendered as a struct

//@stub expand.rs struct_init_block ::= fn struct_init_block<'a>(input: &'a Struct, ctx: &ImplContext) -> TokenStream
#[verifier::external_body]
fn struct_init_block<'a>(input: &'a Struct, ctx: &ImplContext) -> (r: TokenStream)
    ensures r@ == spec_struct_init(sview(*input), cview(*ctx)),
{ unimplemented!() }

//@stub expand.rs variant_destruct_block ::= fn variant_destruct_block(input: &Struct, ctx: &ImplContext) -> TokenStream
#[verifier::external_body]
fn variant_destruct_block(input: &Struct, ctx: &ImplContext) -> (r: TokenStream)
    ensures r@ == spec_variant_destruct(sview(*input), cview(*ctx)),
{ unimplemented!() }

// the variant seen as a struct: same payload fields, its own #[ghosts], nothing else
spec fn vsview(v: &Variant) -> SView {
    SView {
        attrs: AView { attrs: Seq::empty(), ghosts_attrs: v.attrs.ghosts_attrs@, where_attrs: Seq::empty(), child_parents_attrs: Seq::empty() },
        ident: v.ident, fields: v.fields@, named_fields: v.named_fields, unit: v.unit,
    }
}
// the conversion context inside the arm: bindings instead of value./self., counterpart form from #[type_hint]
spec fn vcview<'a>(v: &Variant, ctx: ImplContext<'a>, hint: TypeHint) -> CView {
    CView { input: Some(vsview(v)), impl_type: ImplType::Variant, sa: TraitAttrCore { type_hint: hint, ..*ctx.struct_attr }, ..cview(ctx) }
}

spec fn variant_hint(v: &Variant, ty: TypePath) -> TypeHint {
    match spec_type_hint(&v.attrs, ty) { Some(h) => h.type_hint, None => TypeHint::Unspecified }
}

spec fn hint_maybe(h: TypeHint, m: TypeHint) -> bool { h == m || h is Unspecified }

// left of `=>` when the variant itself is matched: its payload pattern
spec fn arm_destr(empty_fields: bool, from: bool, hint: TypeHint, destruct: Toks) -> Toks {
    if empty_fields && (!from || hint_maybe(hint, TypeHint::Unit)) {
        nil()
    } else if empty_fields && from && hint is Tuple {
        paren(p(".."))
    } else if empty_fields && from && hint is Struct {
        brace(p(".."))
    } else {
        destruct
    }
}
// payload constructor on the right of `=>`
spec fn arm_init<'a>(a: Option<ApplicableAttr<'a>>, empty_fields: bool, hint: TypeHint, init: Toks) -> Toks {
    if (a is Some && aa_action(a->0) is Some) || (empty_fields && hint_maybe(hint, TypeHint::Unit)) { nil() } else { init }
}

// which arm shapes exist (everything else is a todo!() in the code)
spec fn arm_defined<'a>(a: Option<ApplicableAttr<'a>>, lit: bool, pat: bool, k: Kind) -> bool {
    ||| (a is None && !lit && !pat)
    ||| (a is Some && !lit && !pat && !k_is_into_existing(k))
    ||| (a is None && lit && !pat && !k_is_into_existing(k))
    ||| (a is None && !lit && pat && k_is_from(k))
    ||| (a is Some && !lit && pat && k_is_into(k))
}

spec fn spec_enum_arm<'a>(v: &'a Variant, ctx: ImplContext<'a>, destruct: Toks, init0: Toks) -> Toks {
    let ty = ctx.struct_attr.ty;
    let a = spec_applicable(&v.attrs, ctx.kind, ctx.fallible, ty);
    let lit = spec_lit(&v.attrs, ty);
    let pat = spec_pat(&v.attrs, ty);
    let hint = variant_hint(v, ty);
    let empty = v.fields@.len() == 0;
    let destr = arm_destr(empty, k_is_from(ctx.kind), hint, destruct);
    let init = arm_init(a, empty, hint, init0);
    let src_v = ctx.src_ty@ + p("::") + v.ident.toks();
    let dst_v = ctx.dst_ty@ + p("::") + v.ident.toks();
    if a is None && lit is None && pat is None {
        // same-named variant on both sides
        src_v + destr + p("=>") + dst_v + init + p(",")
    } else if a is Some && lit is None && pat is None && k_is_from(ctx.kind) {
        // the counterpart's (renamed) variant is matched; the result is this variant or the variant-level expression
        let renamed = match aa_member(a->0) { Some(m) => m.toks(), None => match a->0 { ApplicableAttr::ParentChildField(pc, _) => pc.this_member.toks(), _ => v.ident.toks() } };
        ctx.src_ty@ + p("::") + renamed + destr + p("=>")
            + (if aa_action(a->0) is Some { spec_action(aa_action(a->0)->0@, v.ident.toks(), ctx) } else { dst_v + init })
            + p(",")
    } else if a is Some && lit is None && pat is None {
        // this variant is matched; the result is the counterpart's (renamed) variant or the expression
        let right = if a->0 is Ghost {
            spec_action(aa_action(a->0)->0@, nil(), ctx)
        } else {
            let m = match stuff_member(a->0) { Some(m) => m.toks(), None => v.ident.toks() };
            if aa_action(a->0) is Some { spec_action(aa_action(a->0)->0@, m + init, ctx) } else { ctx.dst_ty@ + p("::") + m + init }
        };
        src_v + destr + p("=>") + right + p(",")
    } else if a is None && lit is Some && pat is None && k_is_from(ctx.kind) {
        lit->0.tokens@ + p("=>") + dst_v + init + p(",")          // the value x converts to the variant
    } else if a is None && lit is Some && pat is None {
        src_v + destr + p("=>") + lit->0.tokens@ + p(",")         // the variant converts to the value x
    } else if a is None && lit is None && pat is Some {
        pat->0.tokens@ + p("=>") + dst_v + init + p(",")          // every value matching p converts to the variant
    } else {
        // pattern + Into: the variant converts to its Into expression
        src_v + destr + p("=>") + spec_action(aa_action(a->0)->0@, nil(), ctx) + p(",")
    }
}

//@fn expand.rs render_enum_line
//@props C02,C09,C16
//@attr #[verifier::rlimit(1000)]
//@spec
    requires
        arm_defined(spec_applicable(&v.attrs, ctx.kind, ctx.fallible, ctx.struct_attr.ty), spec_lit(&v.attrs, ctx.struct_attr.ty) is Some, spec_pat(&v.attrs, ctx.struct_attr.ty) is Some, ctx.kind), // #arm-shape-exists [C16]
        // a ghost variant is rendered only when it has a default value; a pattern variant converts back through its Into expression
        ({ let a = spec_applicable(&v.attrs, ctx.kind, ctx.fallible, ctx.struct_attr.ty);
           &&& (a is Some && a->0 is Ghost) ==> (aa_action(a->0) is Some && !k_is_from(ctx.kind))
           &&& (a is Some && spec_pat(&v.attrs, ctx.struct_attr.ty) is Some) ==> (aa_action(a->0) is Some && !(a->0 is Ghost)) }), // #ghost-and-pattern-variants-carry-an-expression [C16]
        !(ctx.impl_type is Variant),
    ensures
        r@ =~= spec_enum_arm(v, *ctx,
            spec_variant_destruct(vsview(v), vcview(v, *ctx, variant_hint(v, ctx.struct_attr.ty))),
            spec_struct_init(vsview(v), vcview(v, *ctx, variant_hint(v, ctx.struct_attr.ty)))), // #variant-arm
//@closure 0
    |x: &VariantTypeHintAttr| -> (r: TypeHint) ensures r == x.type_hint
//@closure 1
    |x: &ApplicableAttr| -> (r: bool) ensures r == (aa_action(*x) is Some)
//@closure 2
    || -> (r: TokenStream) ensures r@ =~= dst@ + p("::") + ident.toks() + init@
//@closure 3
    |x: &Member| -> (r: TokenStream) ensures r@ =~= x.toks() + init@
//@closure 4
    || -> (r: _) ensures is_member(r, &member)
//@end

} // verus!
