#![allow(unused)]
use ::vstd::prelude::*;
//@quote-macros
//@include prelude/tokens.rs
//@include prelude/deps.rs
//@include prelude/containers.rs
//@include prelude/option.rs
//@include prelude/strings.rs
verus! {
broadcast use str_axioms::axiom_str_eq_is_view_eq;
//@include units/types.inc
//@include units/spec_common.inc
} // verus!
//@include units/clones.inc
verus! {
//@include units/spec_tables.inc

// =====================================================================================================
// U1 — applicability tables and instruction parsers
// =====================================================================================================

//@fn attr.rs appl_owned_into
//@props C04,C12,C05
//@spec
    ensures r == spec_appl(instr@, Kind::OwnedInto), // #table-row-owned_into
//@end
//@fn attr.rs appl_ref_into
//@props C04,C12,C05
//@spec
    ensures r == spec_appl(instr@, Kind::RefInto), // #table-row-ref_into
//@end
//@fn attr.rs appl_from_owned
//@props C04,C12,C05
//@spec
    ensures r == spec_appl(instr@, Kind::FromOwned), // #table-row-from_owned
//@end
//@fn attr.rs appl_from_ref
//@props C04,C12,C05
//@spec
    ensures r == spec_appl(instr@, Kind::FromRef), // #table-row-from_ref
//@end
//@fn attr.rs appl_owned_into_existing
//@props C04,C12,C05
//@spec
    ensures r == spec_appl(instr@, Kind::OwnedIntoExisting), // #table-row-owned_into_existing
//@end
//@fn attr.rs appl_ref_into_existing
//@props C04,C12,C05
//@spec
    ensures r == spec_appl(instr@, Kind::RefIntoExisting), // #table-row-ref_into_existing
//@end
//@fn attr.rs appl_ghosts_owned
//@props C12,C06
//@spec
    ensures r == spec_ghosts_appl(instr@, Kind::OwnedInto), // #ghosts-owned
//@end
//@fn attr.rs appl_ghosts_ref
//@props C12,C06
//@spec
    ensures r == spec_ghosts_appl(instr@, Kind::RefInto), // #ghosts-ref
//@end
//@fn attr.rs appl_ghost_owned
//@props C12,C05
//@spec
    ensures r == spec_ghost_appl(instr@, Kind::OwnedInto), // #ghost-owned
//@end
//@fn attr.rs appl_ghost_ref
//@props C12,C05
//@spec
    ensures r == spec_ghost_appl(instr@, Kind::RefInto), // #ghost-ref
//@end


//@include units/index_impl.inc

//@fn attr.rs TypeHint::maybe
//@props C02
//@spec
    ensures r == (self == maybe || self is Unspecified), // #maybe
//@end


// ---------------------------------------------------------------- instruction parsers (C04 C12 C13)
spec fn ghosts_appl_is(a: [bool; 6], n: Seq<char>) -> bool {
    forall|k: Kind| #[trigger] appl(a, k) == spec_ghosts_appl(n, k)
}
spec fn ghost_appl_is(a: [bool; 6], n: Seq<char>) -> bool {
    forall|k: Kind| #[trigger] appl(a, k) == spec_ghost_appl(n, k)
}

// names that are type-level instructions in both spellings (#[name(..)] and #[o2o(name(..))])
spec fn dti_recognised(n: Seq<char>) -> bool {
    is_trait_name(n) || is_ghosts_name(n) || n == "child_parents"@ || n == "where_clause"@
}

spec fn dti_is_diagnostic(d: DataTypeInstruction) -> bool {
    d is Misplaced || d is Misnamed || d is UnrecognizedWithError || d is Unrecognized
}

//@fn attr.rs parse_data_type_instruction
//@props C04,C12,C13
//@spec
    ensures
        is_trait_name(instr.name()) ==> (match r {
            Ok(DataTypeInstruction::Map(t)) => t.fallible == is_fallible_trait_name(instr.name())
                && appl_is(t.applicable_to, instr.name())
                && spec_parse2::<TraitAttrCore>(input@) == Ok::<TraitAttrCore, Error>(t.core),
            Ok(_) => false,
            Err(e) => spec_parse2::<TraitAttrCore>(input@) == Err::<TraitAttrCore, Error>(e),
        }), // #trait-instr-to-TraitAttr [C04,C12,C13]
        !is_trait_name(instr.name()) ==> !(r matches Ok(DataTypeInstruction::Map(_))), // #only-the-24-names [C04]
        is_ghosts_name(instr.name()) ==> (match r {
            Ok(DataTypeInstruction::Ghosts(g)) => ghosts_appl_is(g.applicable_to, instr.name())
                && spec_parse2::<StructGhostAttrCore>(input@) == Ok::<StructGhostAttrCore, Error>(g.attr),
            Ok(_) => false,
            Err(e) => spec_parse2::<StructGhostAttrCore>(input@) == Err::<StructGhostAttrCore, Error>(e),
        }), // #ghosts-instr [C12,C13]
        instr.name() == "child_parents"@ ==> (match r {
            Ok(DataTypeInstruction::ChildParents(c)) => spec_parse2::<ChildParentsAttr>(input@) == Ok::<ChildParentsAttr, Error>(c),
            Ok(_) => false,
            Err(e) => spec_parse2::<ChildParentsAttr>(input@) == Err::<ChildParentsAttr, Error>(e),
        }), // #child_parents-instr [C13]
        instr.name() == "where_clause"@ ==> (match r {
            Ok(DataTypeInstruction::Where(c)) => spec_parse2::<WhereAttr>(input@) == Ok::<WhereAttr, Error>(c),
            Ok(_) => false,
            Err(e) => spec_parse2::<WhereAttr>(input@) == Err::<WhereAttr, Error>(e),
        }), // #where_clause-instr [C13]
        // own_instr / bark only select a diagnostic class, and only for names that are not type-level instructions
        !dti_recognised(instr.name()) ==> (r matches Ok(d) && (dti_is_diagnostic(d) || (d is AllowUnknown && own_instr && instr.name() == "allow_unknown"@))), // #flags-only-affect-diagnostics [C13]
//@proof
    reveal_strlit("owned_into"); reveal_strlit("ref_into"); reveal_strlit("into"); reveal_strlit("from_owned"); reveal_strlit("from_ref"); reveal_strlit("from");
    reveal_strlit("map_owned"); reveal_strlit("map_ref"); reveal_strlit("map"); reveal_strlit("owned_into_existing"); reveal_strlit("ref_into_existing"); reveal_strlit("into_existing");
    reveal_strlit("owned_try_into"); reveal_strlit("ref_try_into"); reveal_strlit("try_into"); reveal_strlit("try_from_owned"); reveal_strlit("try_from_ref"); reveal_strlit("try_from");
    reveal_strlit("try_map_owned"); reveal_strlit("try_map_ref"); reveal_strlit("try_map"); reveal_strlit("owned_try_into_existing"); reveal_strlit("ref_try_into_existing"); reveal_strlit("try_into_existing");
    reveal_strlit("ghosts"); reveal_strlit("ghosts_ref"); reveal_strlit("ghosts_owned"); reveal_strlit("child_parents"); reveal_strlit("where_clause"); reveal_strlit("allow_unknown");
    reveal_strlit("children"); reveal_strlit("ghost"); reveal_strlit("ghost_ref"); reveal_strlit("ghost_owned"); reveal_strlit("child"); reveal_strlit("parent");
    reveal_strlit("as_type"); reveal_strlit("literal"); reveal_strlit("pattern"); reveal_strlit("repeat"); reveal_strlit("skip_repeat"); reveal_strlit("stop_repeat"); reveal_strlit("type_hint");
//@end


spec fn is_member_map_name(n: Seq<char>) -> bool { is_infallible_trait_name(n) || is_fallible_member_name(n) }

// names that are member-level instructions in both spellings
spec fn mi_recognised(n: Seq<char>) -> bool {
    is_member_map_name(n) || is_ghost_name(n) || is_ghosts_name(n) || n == "child"@ || n == "parent"@ || n == "as_type"@ || n == "literal"@
    || n == "pattern"@ || n == "repeat"@ || n == "skip_repeat"@ || n == "stop_repeat"@ || n == "type_hint"@
}

spec fn mi_is_diagnostic(d: MemberInstruction) -> bool {
    d is Misplaced || d is Misnamed || d is UnrecognizedWithError || d is Unrecognized
}

// payload instructions: `name` => Variant(parse(tokens))
spec fn parsed_as<T>(r: Result<MemberInstruction>, toks: Toks, payload: Option<T>) -> bool {
    match r {
        Ok(_) => payload is Some && spec_parse2::<T>(toks) == Ok::<T, Error>(payload->0),
        Err(e) => spec_parse2::<T>(toks) == Err::<T, Error>(e),
    }
}

//@fn attr.rs parse_member_instruction
//@props C05,C12,C13
//@spec
    ensures
        is_member_map_name(instr.name()) ==> (match r {
            Ok(MemberInstruction::Map(t)) => t.fallible == is_fallible_member_name(instr.name())
                && appl_is(t.applicable_to, instr.name())
                && t.original_instr@ == instr.name()
                && spec_parse2::<MemberAttrCore>(input@) == Ok::<MemberAttrCore, Error>(t.attr),
            Ok(_) => false,
            Err(e) => spec_parse2::<MemberAttrCore>(input@) == Err::<MemberAttrCore, Error>(e),
        }), // #member-map-instr [C05,C12,C13]
        !is_member_map_name(instr.name()) ==> !(r matches Ok(MemberInstruction::Map(_))), // #only-the-21-names [C05]
        is_ghost_name(instr.name()) ==> (match r {
            Ok(MemberInstruction::Ghost(g)) => ghost_appl_is(g.applicable_to, instr.name())
                && spec_parse2::<FieldGhostAttrCore>(input@) == Ok::<FieldGhostAttrCore, Error>(g.attr),
            Ok(_) => false,
            Err(e) => spec_parse2::<FieldGhostAttrCore>(input@) == Err::<FieldGhostAttrCore, Error>(e),
        }), // #ghost-instr [C12,C13]
        is_ghosts_name(instr.name()) ==> (match r {
            Ok(MemberInstruction::Ghosts(g)) => ghosts_appl_is(g.applicable_to, instr.name())
                && spec_parse2::<StructGhostAttrCore>(input@) == Ok::<StructGhostAttrCore, Error>(g.attr),
            Ok(_) => false,
            Err(e) => spec_parse2::<StructGhostAttrCore>(input@) == Err::<StructGhostAttrCore, Error>(e),
        }), // #member-ghosts-instr [C12,C13]
        instr.name() == "child"@ ==> parsed_as::<ChildAttr>(r, input@, match r { Ok(MemberInstruction::Child(x)) => Some(x), _ => None }), // #child-instr [C13]
        instr.name() == "parent"@ ==> parsed_as::<ParentAttr>(r, input@, match r { Ok(MemberInstruction::Parent(x)) => Some(x), _ => None }), // #parent-instr [C13]
        instr.name() == "as_type"@ ==> parsed_as::<AsAttr>(r, input@, match r { Ok(MemberInstruction::As(x)) => Some(x), _ => None }), // #as_type-instr [C13]
        instr.name() == "literal"@ ==> parsed_as::<LitAttr>(r, input@, match r { Ok(MemberInstruction::Lit(x)) => Some(x), _ => None }), // #literal-instr [C13]
        instr.name() == "pattern"@ ==> parsed_as::<PatAttr>(r, input@, match r { Ok(MemberInstruction::Pat(x)) => Some(x), _ => None }), // #pattern-instr [C13]
        instr.name() == "repeat"@ ==> parsed_as::<MemberRepeatAttr>(r, input@, match r { Ok(MemberInstruction::Repeat(x)) => Some(x), _ => None }), // #repeat-instr [C13,C14]
        instr.name() == "type_hint"@ ==> parsed_as::<VariantTypeHintAttr>(r, input@, match r { Ok(MemberInstruction::VariantTypeHint(x)) => Some(x), _ => None }), // #type_hint-instr [C13]
        instr.name() == "skip_repeat"@ ==> r matches Ok(MemberInstruction::SkipRepeat), // #skip_repeat-instr [C13,C14]
        instr.name() == "stop_repeat"@ ==> r matches Ok(MemberInstruction::StopRepeat), // #stop_repeat-instr [C13,C14]
        !mi_recognised(instr.name()) ==> (r matches Ok(d) && mi_is_diagnostic(d)), // #flags-only-affect-diagnostics [C13]
//@proof
    reveal_strlit("owned_into"); reveal_strlit("ref_into"); reveal_strlit("into"); reveal_strlit("from_owned"); reveal_strlit("from_ref"); reveal_strlit("from");
    reveal_strlit("map_owned"); reveal_strlit("map_ref"); reveal_strlit("map"); reveal_strlit("owned_into_existing"); reveal_strlit("ref_into_existing"); reveal_strlit("into_existing");
    reveal_strlit("owned_try_into"); reveal_strlit("ref_try_into"); reveal_strlit("try_into"); reveal_strlit("try_from_owned"); reveal_strlit("try_from_ref"); reveal_strlit("try_from");
    reveal_strlit("try_map_owned"); reveal_strlit("try_map_ref"); reveal_strlit("try_map"); reveal_strlit("owned_try_into_existing"); reveal_strlit("ref_try_into_existing"); reveal_strlit("try_into_existing");
    reveal_strlit("ghosts"); reveal_strlit("ghosts_ref"); reveal_strlit("ghosts_owned"); reveal_strlit("child_parents"); reveal_strlit("where_clause"); reveal_strlit("allow_unknown");
    reveal_strlit("children"); reveal_strlit("ghost"); reveal_strlit("ghost_ref"); reveal_strlit("ghost_owned"); reveal_strlit("child"); reveal_strlit("parent");
    reveal_strlit("as_type"); reveal_strlit("literal"); reveal_strlit("pattern"); reveal_strlit("repeat"); reveal_strlit("skip_repeat"); reveal_strlit("stop_repeat"); reveal_strlit("type_hint");
//@end


// ---------------------------------------------------------------- lemmas over the proved tables (C12, C04)
// props: C12,C04
proof fn lemma_basic_names_request_exactly_one_kind(k: Kind)
    ensures
        spec_appl("from_owned"@, k) == (k is FromOwned), spec_appl("try_from_owned"@, k) == (k is FromOwned),
        spec_appl("from_ref"@, k) == (k is FromRef), spec_appl("try_from_ref"@, k) == (k is FromRef),
        spec_appl("owned_into"@, k) == (k is OwnedInto), spec_appl("owned_try_into"@, k) == (k is OwnedInto),
        spec_appl("ref_into"@, k) == (k is RefInto), spec_appl("ref_try_into"@, k) == (k is RefInto),
        spec_appl("owned_into_existing"@, k) == (k is OwnedIntoExisting), spec_appl("owned_try_into_existing"@, k) == (k is OwnedIntoExisting),
        spec_appl("ref_into_existing"@, k) == (k is RefIntoExisting), spec_appl("ref_try_into_existing"@, k) == (k is RefIntoExisting),
{
    reveal_strlit("owned_into"); reveal_strlit("ref_into"); reveal_strlit("into"); reveal_strlit("from_owned"); reveal_strlit("from_ref"); reveal_strlit("from");
    reveal_strlit("map_owned"); reveal_strlit("map_ref"); reveal_strlit("map"); reveal_strlit("owned_into_existing"); reveal_strlit("ref_into_existing"); reveal_strlit("into_existing");
    reveal_strlit("owned_try_into"); reveal_strlit("ref_try_into"); reveal_strlit("try_into"); reveal_strlit("try_from_owned"); reveal_strlit("try_from_ref"); reveal_strlit("try_from");
    reveal_strlit("try_map_owned"); reveal_strlit("try_map_ref"); reveal_strlit("try_map"); reveal_strlit("owned_try_into_existing"); reveal_strlit("ref_try_into_existing"); reveal_strlit("try_into_existing");
    reveal_strlit("ghosts"); reveal_strlit("ghosts_ref"); reveal_strlit("ghosts_owned"); reveal_strlit("ghost"); reveal_strlit("ghost_ref"); reveal_strlit("ghost_owned");
}

// props: C12
proof fn lemma_shortcut_is_union_of_the_basics_it_abbreviates(k: Kind)
    ensures
        spec_appl("map"@, k) == (spec_appl("from_owned"@, k) || spec_appl("from_ref"@, k) || spec_appl("owned_into"@, k) || spec_appl("ref_into"@, k)),
        spec_appl("from"@, k) == (spec_appl("from_owned"@, k) || spec_appl("from_ref"@, k)),
        spec_appl("into"@, k) == (spec_appl("owned_into"@, k) || spec_appl("ref_into"@, k)),
        spec_appl("map_owned"@, k) == (spec_appl("from_owned"@, k) || spec_appl("owned_into"@, k)),
        spec_appl("map_ref"@, k) == (spec_appl("from_ref"@, k) || spec_appl("ref_into"@, k)),
        spec_appl("into_existing"@, k) == (spec_appl("owned_into_existing"@, k) || spec_appl("ref_into_existing"@, k)),
        spec_appl("try_map"@, k) == (spec_appl("try_from_owned"@, k) || spec_appl("try_from_ref"@, k) || spec_appl("owned_try_into"@, k) || spec_appl("ref_try_into"@, k)),
        spec_appl("try_from"@, k) == (spec_appl("try_from_owned"@, k) || spec_appl("try_from_ref"@, k)),
        spec_appl("try_into"@, k) == (spec_appl("owned_try_into"@, k) || spec_appl("ref_try_into"@, k)),
        spec_appl("try_map_owned"@, k) == (spec_appl("try_from_owned"@, k) || spec_appl("owned_try_into"@, k)),
        spec_appl("try_map_ref"@, k) == (spec_appl("try_from_ref"@, k) || spec_appl("ref_try_into"@, k)),
        spec_appl("try_into_existing"@, k) == (spec_appl("owned_try_into_existing"@, k) || spec_appl("ref_try_into_existing"@, k)),
        spec_ghost_appl("ghost"@, k) == (spec_ghost_appl("ghost_owned"@, k) || spec_ghost_appl("ghost_ref"@, k)),
        spec_ghosts_appl("ghosts"@, k) == (spec_ghosts_appl("ghosts_owned"@, k) || spec_ghosts_appl("ghosts_ref"@, k)),
{
    reveal_strlit("owned_into"); reveal_strlit("ref_into"); reveal_strlit("into"); reveal_strlit("from_owned"); reveal_strlit("from_ref"); reveal_strlit("from");
    reveal_strlit("map_owned"); reveal_strlit("map_ref"); reveal_strlit("map"); reveal_strlit("owned_into_existing"); reveal_strlit("ref_into_existing"); reveal_strlit("into_existing");
    reveal_strlit("owned_try_into"); reveal_strlit("ref_try_into"); reveal_strlit("try_into"); reveal_strlit("try_from_owned"); reveal_strlit("try_from_ref"); reveal_strlit("try_from");
    reveal_strlit("try_map_owned"); reveal_strlit("try_map_ref"); reveal_strlit("try_map"); reveal_strlit("owned_try_into_existing"); reveal_strlit("ref_try_into_existing"); reveal_strlit("try_into_existing");
    reveal_strlit("ghosts"); reveal_strlit("ghosts_ref"); reveal_strlit("ghosts_owned"); reveal_strlit("ghost"); reveal_strlit("ghost_ref"); reveal_strlit("ghost_owned");
}

// props: C04,C12
// a `try_` name is fallible, a plain name is not, and the two sets are disjoint: fallibility is a function of the name
proof fn lemma_fallibility_is_decided_by_the_name(n: Seq<char>)
    ensures !(is_infallible_trait_name(n) && is_fallible_trait_name(n)),
{
    reveal_strlit("owned_into"); reveal_strlit("ref_into"); reveal_strlit("into"); reveal_strlit("from_owned"); reveal_strlit("from_ref"); reveal_strlit("from");
    reveal_strlit("map_owned"); reveal_strlit("map_ref"); reveal_strlit("map"); reveal_strlit("owned_into_existing"); reveal_strlit("ref_into_existing"); reveal_strlit("into_existing");
    reveal_strlit("owned_try_into"); reveal_strlit("ref_try_into"); reveal_strlit("try_into"); reveal_strlit("try_from_owned"); reveal_strlit("try_from_ref"); reveal_strlit("try_from");
    reveal_strlit("try_map_owned"); reveal_strlit("try_map_ref"); reveal_strlit("try_map"); reveal_strlit("owned_try_into_existing"); reveal_strlit("ref_try_into_existing"); reveal_strlit("try_into_existing");
    reveal_strlit("ghosts"); reveal_strlit("ghosts_ref"); reveal_strlit("ghosts_owned"); reveal_strlit("ghost"); reveal_strlit("ghost_ref"); reveal_strlit("ghost_owned");
}

// ---------------------------------------------------------------- #[as_type(..)] (C01)
//@fn attr.rs add_as_type_attrs
//@props C01
//@spec
    ensures
        final(attrs)@.len() == old(attrs)@.len() + 2, // #two-casts
        final(attrs)@.subrange(0, old(attrs)@.len() as int) =~= old(attrs)@, // #existing-kept
        ({
            let a = final(attrs)@[old(attrs)@.len() as int];
            // converting FROM the counterpart: cast to this field's own type
            &&& a.attr.action is Some && a.attr.action->0@ =~= seq![Tok::Other("~"@)] + id("as") + input.ty.toks()
            &&& a.attr.member == attr.member && a.attr.container_ty == attr.container_ty && !a.fallible
            &&& forall|k: Kind| #[trigger] appl(a.applicable_to, k) == k_is_from(k)
        }), // #from-cast
        ({
            let a = final(attrs)@[old(attrs)@.len() as int + 1];
            // converting INTO the counterpart: cast to the type given in the instruction
            &&& a.attr.action is Some && a.attr.action->0@ =~= seq![Tok::Other("~"@)] + id("as") + attr.tokens@
            &&& a.attr.member == attr.member && a.attr.container_ty == attr.container_ty && !a.fallible
            &&& forall|k: Kind| #[trigger] appl(a.applicable_to, k) == !k_is_from(k)
        }), // #into-cast
//@end

} // verus!
