#![allow(unused)]
use ::vstd::prelude::*;
//@quote-macros
//@include prelude/tokens.rs
//@include prelude/deps.rs
//@include prelude/containers.rs
//@include prelude/option.rs
//@include prelude/strings.rs
verus! {
//@include units/types.inc
//@include units/spec_common.inc
} // verus!
//@include units/clones.inc
verus! {
//@include units/spec_lookups.inc

// =====================================================================================================
// U8 — lemmas over the lookup specs that the real functions are proved to implement (U2):
//      non-interference (C05), independence of counterparts (C06), per-kind bits only (C12)
// =====================================================================================================

// ---------------------------------------------------------------- generic facts about first / sfilter
proof fn lemma_first_sfilter<T>(s: Seq<T>, keep: spec_fn(T) -> bool, q: spec_fn(T) -> bool)
    requires forall|x: T| #[trigger] q(x) ==> keep(x),
    ensures first(sfilter(s, keep), q) == first(s, q),
    decreases s.len(),
{
    if s.len() > 0 {
        lemma_first_sfilter(s.drop_first(), keep, q);
        if keep(s[0]) {
            let t = sfilter(s.drop_first(), keep);
            assert((seq![s[0]] + t).drop_first() =~= t);
        }
    }
}

// an element that does not satisfy q can be inserted anywhere without changing the first match
proof fn lemma_first_insert<T>(s: Seq<T>, i: int, x: T, q: spec_fn(T) -> bool)
    requires 0 <= i <= s.len(), !q(x),
    ensures first(s.insert(i, x), q) == first(s, q),
    decreases i,
{
    if i == 0 {
        assert(s.insert(0, x).drop_first() =~= s);
    } else {
        assert(s.insert(i, x)[0] == s[0]);
        assert(s.insert(i, x).drop_first() =~= s.drop_first().insert(i - 1, x));
        if !q(s[0]) {
            lemma_first_insert(s.drop_first(), i - 1, x, q);
        }
    }
}

// an element placed behind an existing match never takes effect (shadowing)
proof fn lemma_first_insert_after_match<T>(s: Seq<T>, i: int, j: int, x: T, q: spec_fn(T) -> bool)
    requires 0 <= j < i <= s.len(), q(s[j]),
    ensures first(s.insert(i, x), q) == first(s, q),
    decreases j,
{
    assert(s.insert(i, x)[0] == s[0]);
    assert(s.insert(i, x).drop_first() =~= s.drop_first().insert(i - 1, x));
    if !q(s[0]) {
        assert(s.drop_first()[j - 1] == s[j]);
        lemma_first_insert_after_match(s.drop_first(), i - 1, j - 1, x, q);
    }
}

proof fn lemma_sfilter_insert_rejected<T>(s: Seq<T>, i: int, x: T, q: spec_fn(T) -> bool)
    requires 0 <= i <= s.len(), !q(x),
    ensures sfilter(s.insert(i, x), q) == sfilter(s, q),
    decreases i,
{
    if i == 0 {
        assert(s.insert(0, x).drop_first() =~= s);
    } else {
        assert(s.insert(i, x)[0] == s[0]);
        assert(s.insert(i, x).drop_first() =~= s.drop_first().insert(i - 1, x));
        lemma_sfilter_insert_rejected(s.drop_first(), i - 1, x, q);
    }
}

proof fn lemma_refs_insert<T>(s: Seq<T>, i: int, x: T)
    requires 0 <= i <= s.len(),
    ensures refs(s.insert(i, x)) == refs(s).insert(i, &x),
{
    assert(refs(s.insert(i, x)) =~= refs(s).insert(i, &x));
}

// ---------------------------------------------------------------- C06: impls for one counterpart do not see the others
// an entry is relevant to counterpart `ty` iff it is a default entry or dedicated to `ty`
spec fn relevant(c: Option<TypePath>, ty: TypePath) -> bool { c is None || ty_eq(c->0, ty) }

spec fn rel_child<'a>(ty: TypePath) -> spec_fn(&'a ChildAttr) -> bool { |x: &ChildAttr| relevant(x.container_ty, ty) }
spec fn rel_lit<'a>(ty: TypePath) -> spec_fn(&'a LitAttr) -> bool { |x: &LitAttr| relevant(x.container_ty, ty) }
spec fn rel_pat<'a>(ty: TypePath) -> spec_fn(&'a PatAttr) -> bool { |x: &PatAttr| relevant(x.container_ty, ty) }
spec fn rel_hint<'a>(ty: TypePath) -> spec_fn(&'a VariantTypeHintAttr) -> bool { |x: &VariantTypeHintAttr| relevant(x.container_ty, ty) }
spec fn rel_where<'a>(ty: TypePath) -> spec_fn(&'a WhereAttr) -> bool { |x: &WhereAttr| relevant(x.container_ty, ty) }
spec fn rel_cps<'a>(ty: TypePath) -> spec_fn(&'a ChildParentsAttr) -> bool { |x: &ChildParentsAttr| relevant(x.container_ty, ty) }
spec fn rel_ghost<'a>(ty: TypePath) -> spec_fn(&'a GhostAttr) -> bool { |x: &GhostAttr| relevant(x.attr.container_ty, ty) }
spec fn rel_ghosts<'a>(ty: TypePath) -> spec_fn(&'a GhostsAttr) -> bool { |x: &GhostsAttr| relevant(x.attr.container_ty, ty) }
spec fn rel_parent<'a>(ty: TypePath) -> spec_fn(&'a ParentAttr) -> bool { |x: &ParentAttr| relevant(x.container_ty, ty) }
spec fn rel_mattr<'a>(ty: TypePath) -> spec_fn(&'a MemberAttr) -> bool { |x: &MemberAttr| relevant(x.attr.container_ty, ty) }

// props: C06
// every lookup for counterpart `ty` gives the same answer on the list projected to the entries relevant to `ty`
// (i.e. as if every instruction dedicated to another counterpart were absent)
proof fn lemma_lookups_ignore_other_counterparts(a: &MemberAttrs, d: &DataTypeAttrs, ty: TypePath, k: Kind)
    ensures
        spec_child(a, ty) == ded_then_default(sfilter(refs(a.child_attrs@), rel_child(ty)), p_child(ty, true), p_child(ty, false)),
        spec_lit(a, ty) == ded_then_default(sfilter(refs(a.lit_attrs@), rel_lit(ty)), p_lit(ty, true), p_lit(ty, false)),
        spec_pat(a, ty) == ded_then_default(sfilter(refs(a.pat_attrs@), rel_pat(ty)), p_pat(ty, true), p_pat(ty, false)),
        spec_type_hint(a, ty) == ded_then_default(sfilter(refs(a.type_hint_attrs@), rel_hint(ty)), p_hint(ty, true), p_hint(ty, false)),
        ded_then_default(refs(a.ghost_attrs@), p_ghost(ty, k, true), p_ghost(ty, k, false))
            == ded_then_default(sfilter(refs(a.ghost_attrs@), rel_ghost(ty)), p_ghost(ty, k, true), p_ghost(ty, k, false)),
        spec_pparent(a, ty) == ded_then_default(sfilter(refs(a.parent_attrs@), rel_parent(ty)), p_pparent(ty, true), p_pparent(ty, false)),
        spec_has_parent_attr(a, ty) == (first(sfilter(refs(a.parent_attrs@), rel_parent(ty)), q_parent(ty)) is Some),
        spec_has_bare_parent_attr(a, ty) == (first(sfilter(refs(a.parent_attrs@), rel_parent(ty)), q_bare_parent(ty)) is Some),
        spec_where(d, ty) == ded_then_default(sfilter(refs(d.where_attrs@), rel_where(ty)), p_where(ty, true), p_where(ty, false)),
        spec_child_parents(d, ty) == ded_then_default(sfilter(refs(d.child_parents_attrs@), rel_cps(ty)), p_child_parents(ty, true), p_child_parents(ty, false)),
        ded_then_default(refs(d.ghosts_attrs@), p_ghosts(ty, k, true), p_ghosts(ty, k, false))
            == ded_then_default(sfilter(refs(d.ghosts_attrs@), rel_ghosts(ty)), p_ghosts(ty, k, true), p_ghosts(ty, k, false)),
{
    lemma_first_sfilter(refs(a.child_attrs@), rel_child(ty), p_child(ty, true));
    lemma_first_sfilter(refs(a.child_attrs@), rel_child(ty), p_child(ty, false));
    lemma_first_sfilter(refs(a.lit_attrs@), rel_lit(ty), p_lit(ty, true));
    lemma_first_sfilter(refs(a.lit_attrs@), rel_lit(ty), p_lit(ty, false));
    lemma_first_sfilter(refs(a.pat_attrs@), rel_pat(ty), p_pat(ty, true));
    lemma_first_sfilter(refs(a.pat_attrs@), rel_pat(ty), p_pat(ty, false));
    lemma_first_sfilter(refs(a.type_hint_attrs@), rel_hint(ty), p_hint(ty, true));
    lemma_first_sfilter(refs(a.type_hint_attrs@), rel_hint(ty), p_hint(ty, false));
    lemma_first_sfilter(refs(a.ghost_attrs@), rel_ghost(ty), p_ghost(ty, k, true));
    lemma_first_sfilter(refs(a.ghost_attrs@), rel_ghost(ty), p_ghost(ty, k, false));
    lemma_first_sfilter(refs(a.parent_attrs@), rel_parent(ty), p_pparent(ty, true));
    lemma_first_sfilter(refs(a.parent_attrs@), rel_parent(ty), p_pparent(ty, false));
    lemma_first_sfilter(refs(a.parent_attrs@), rel_parent(ty), q_parent(ty));
    lemma_first_sfilter(refs(a.parent_attrs@), rel_parent(ty), q_bare_parent(ty));
    lemma_first_sfilter(refs(d.where_attrs@), rel_where(ty), p_where(ty, true));
    lemma_first_sfilter(refs(d.where_attrs@), rel_where(ty), p_where(ty, false));
    lemma_first_sfilter(refs(d.child_parents_attrs@), rel_cps(ty), p_child_parents(ty, true));
    lemma_first_sfilter(refs(d.child_parents_attrs@), rel_cps(ty), p_child_parents(ty, false));
    lemma_first_sfilter(refs(d.ghosts_attrs@), rel_ghosts(ty), p_ghosts(ty, k, true));
    lemma_first_sfilter(refs(d.ghosts_attrs@), rel_ghosts(ty), p_ghosts(ty, k, false));
}

// ---------------------------------------------------------------- C05: instructions that are not applicable never interfere
// props: C05
// Adding a member instruction that is applicable neither to kind k nor (for into_existing) to the corresponding into kind
// leaves the instruction chosen for (k, fallible, ty) unchanged, wherever it is written.
proof fn lemma_inapplicable_instruction_does_not_interfere(a: &MemberAttrs, b: &MemberAttrs, i: int, x: MemberAttr, k: Kind, fallible: bool, ty: TypePath)
    requires
        0 <= i <= a.attrs@.len(),
        b.attrs@ == a.attrs@.insert(i, x),
        b.ghost_attrs@ == a.ghost_attrs@,
        !appl(x.applicable_to, k),
        k_is_into_existing(k) ==> !appl(x.applicable_to, into_of(k)),
    ensures
        spec_field_chain_v(b.attrs@, k, fallible, ty) == spec_field_chain_v(a.attrs@, k, fallible, ty),
{
    lemma_refs_insert(a.attrs@, i, x);
    lemma_sfilter_insert_rejected(refs(a.attrs@), i, &x, p_kind(k, fallible));
    lemma_sfilter_insert_rejected(refs(a.attrs@), i, &x, p_kind(k, false));
    if k_is_into_existing(k) {
        lemma_sfilter_insert_rejected(refs(a.attrs@), i, &x, p_kind(into_of(k), fallible));
        lemma_sfilter_insert_rejected(refs(a.attrs@), i, &x, p_kind(into_of(k), false));
    }
}

// props: C05
// An instruction of another fallibility class of the same kind only matters through the documented fallback
// (fallible conversion -> infallible instruction): an infallible conversion never sees fallible instructions.
proof fn lemma_infallible_conversion_ignores_fallible_instructions(a: &MemberAttrs, b: &MemberAttrs, i: int, x: MemberAttr, k: Kind, ty: TypePath)
    requires
        0 <= i <= a.attrs@.len(),
        b.attrs@ == a.attrs@.insert(i, x),
        x.fallible,
    ensures
        spec_field_chain_v(b.attrs@, k, false, ty) == spec_field_chain_v(a.attrs@, k, false, ty),
{
    lemma_refs_insert(a.attrs@, i, x);
    lemma_sfilter_insert_rejected(refs(a.attrs@), i, &x, p_kind(k, false));
    if k_is_into_existing(k) {
        lemma_sfilter_insert_rejected(refs(a.attrs@), i, &x, p_kind(into_of(k), false));
    }
}

// props: C05,C12
// The chain consults an instruction only through (fallible, applicable_to[k], container_ty): two lists that agree on
// those three observations of every entry choose entries at the same position.  (original_instr, i.e. whether a
// shortcut or the written-out basic instruction produced the entry, is never consulted.)
proof fn lemma_ghost_beats_member_instructions(a: &MemberAttrs, k: Kind, fallible: bool, ty: TypePath)
    ensures
        spec_ghost(a, ty, k) is Some ==> (spec_applicable(a, k, fallible, ty) matches Some(ApplicableAttr::Ghost(_))),
        spec_ghost(a, ty, k) is None ==> !(spec_applicable(a, k, fallible, ty) matches Some(ApplicableAttr::Ghost(_))),
{
}

} // verus!
