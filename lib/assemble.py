#!/usr/bin/env python3
"""Assembler: slices real functions out of /repo (byte-exact, via tools/xtract), splices contracts from
units/*.rs into them and produces one Verus file per unit.  See DESIGN.md section 3.

Directive language of units/<U>.rs (everything else is copied verbatim):

  //@quote-macros                       real `quote!` macro_rules text from the registry copy of quote
  //@include <path relative to /verif>  verbatim include (prelude files)
  //@item <file> <name> [derive=A,B,..] verbatim struct/enum/type/impl item; #[derive] dropped or replaced
  //@stub <file> <name> :: <normalised signature>
                                        asserts that the real fn still has this signature (assumed contract follows
                                        in the unit text as an external_body fn)
  //@fn <file> <name>                   real function, spliced; sub-directives until //@end :
      //@props C01,C07                      default property tags of this function's obligations
      //@ret r                              name of the return value (default r)
      //@attr #[verifier::...]              attribute line put in front of the fn
      //@spec                               following lines: requires/ensures/decreases clauses.  A clause line may end in
                                            `// #label [C01,C02]`
      //@proof                              following lines: ghost proof block inserted right after the opening brace
      //@closure <ord> [let=<name>]         following lines: replacement closure header (`|x: T| -> (r: U) ensures ..`)
  //@end
"""
import hashlib
import json
import os
import re
import subprocess
import sys

VERIF = os.path.dirname(os.path.dirname(os.path.abspath(__file__)))
REPO = os.environ.get("O2O_REPO", "/repo")
SRC_DIR = os.path.join(REPO, "o2o-impl", "src")
XTRACT = os.path.join(VERIF, "tools", "xtract", "target", "release", "xtract")


RLIMIT = int(os.environ.get("VERIF_RLIMIT", "400"))


class Undecided(Exception):
    """Tool trouble / lost anchor: exit 2, never an alarm."""


def sha(b):
    return hashlib.sha256(b).hexdigest()


_xcache = {}


def xtract(files):
    key = tuple(files)
    if key in _xcache:
        return _xcache[key]
    if not os.path.exists(XTRACT):
        raise Undecided("xtract binary missing; run MANIFEST.setup_cmd (bin/setup)")
    p = subprocess.run([XTRACT] + [os.path.join(SRC_DIR, f) for f in files], capture_output=True, text=True)
    if p.returncode != 0:
        raise Undecided("xtract failed: " + p.stderr.strip())
    d = json.loads(p.stdout)
    for it in d["items"]:
        it["file"] = os.path.basename(it["file"])
    for t in d["templates"]:
        t["file"] = os.path.basename(t["file"])
    _xcache[key] = d
    return d


SRC_FILES = ["expand.rs", "attr.rs", "ast.rs", "validate.rs"]


def all_items():
    return xtract(SRC_FILES)


def find_item(file, name):
    m = re.match(r"^(.*)#(\d+)$", name)
    ordn = None
    if m:
        name, ordn = m.group(1), int(m.group(2))
    hits = [it for it in all_items()["items"] if it["file"] == file and it["name"] == name]
    if not hits:
        raise Undecided("anchor lost: %s::%s not found in current tree" % (file, name))
    if ordn is not None:
        if ordn >= len(hits):
            raise Undecided("anchor lost: %s::%s#%d" % (file, name, ordn))
        return hits[ordn]
    if len(hits) > 1:
        raise Undecided("ambiguous anchor %s::%s (%d items)" % (file, name, len(hits)))
    return hits[0]


_src = {}


def src_bytes(file):
    if file not in _src:
        with open(os.path.join(SRC_DIR, file), "rb") as f:
            _src[file] = f.read()
    return _src[file]


def quote_version():
    lock = open(os.path.join(REPO, "Cargo.lock")).read()
    m = re.search(r'name = "quote"\nversion = "([^"]+)"', lock)
    if not m:
        raise Undecided("quote not in Cargo.lock")
    return m.group(1)


def quote_macros():
    ver = quote_version()
    base = os.path.expanduser("~/.cargo/registry/src")
    cands = []
    for d in sorted(os.listdir(base)):
        p = os.path.join(base, d, "quote-" + ver, "src", "lib.rs")
        if os.path.exists(p):
            cands.append(p)
    if not cands:
        raise Undecided("quote-%s sources not in the cargo registry" % ver)
    src = open(cands[0]).read()
    marker = "#[cfg(not(doc))]\n__quote![\n"
    if marker not in src:
        raise Undecided("quote-%s: macro layout changed" % ver)
    body = src[src.index(marker) + len(marker):]
    j = body.index("];\n")
    body = body[:j] + body[j + 3:]
    body = "\n".join(l for l in body.split("\n") if not l.strip().startswith("///"))
    # MODELLED (not the real macro text): the repetition `#(#var)*` over one variable.  The real expansion is a `while true`
    # loop that cannot carry an invariant; it is replaced by one call whose contract says "appends the tokens of every
    # element, in order" (prelude/tokens.rs push_all).  Listed in every evidence file as an assumption.
    anchor = "    // A repetition with no separator.\n    ($tokens:ident $b3:tt $b2:tt $b1:tt (#) ( $($inner:tt)* ) * $a3:tt) => {{"
    if body.count(anchor) != 1:
        raise Undecided("quote-%s: repetition arm not found where expected" % ver)
    patched = ("    // [verif model] single-variable repetition\n"
               "    ($tokens:ident $b3:tt $b2:tt $b1:tt (#) ( # $var:ident ) * $a3:tt) => {\n"
               "        $crate::__private::push_all(&mut $tokens, &$var);\n"
               "    };\n")
    k = body.index(anchor)
    body = body[:k] + patched + body[k:]
    return body, cands[0], sha(src.encode())


LABEL_RE = re.compile(r"//\s*#([A-Za-z0-9_.\-]+)(?:\s*\[([A-Z0-9, ]+)\])?\s*$")


class Unit:
    def __init__(self, name):
        self.name = name
        self.path = os.path.join(VERIF, "units", name + ".rs")
        self.out_lines = []
        self.linemap = {}  # assembled line (1-based) -> dict(kind=..., fn=..., label=..., props=..., src=(file,line))
        self.functions = []  # dict(name,file,line_start,line_end,sha256,props)
        self.items = []
        self.stubs = []
        self.edits = []
        self.labels = []  # all labelled clauses
        self.includes = []
        self.fn_ranges = []  # (start_line, end_line, fnname, props)
        self.quote_src = None

    def emit(self, text, info=None):
        """append text (may be multi-line, no trailing newline needed); returns first line number"""
        lines = text.split("\n")
        first = len(self.out_lines) + 1
        for i, l in enumerate(lines):
            self.out_lines.append(l)
            if info is not None:
                inf = dict(info)
                if "src" in inf and inf["src"] is not None:
                    inf["src"] = (inf["src"][0], inf["src"][1] + i)
                self.linemap[first + i] = inf
        return first

    def text(self):
        return "\n".join(self.out_lines) + "\n"


def parse_unit(name, vacuity=False, shard=None):
    """shard = (fn name, i, n): only that function is verified, with the labelled ensures clauses number i mod n"""
    u = Unit(name)
    u.vacuity = vacuity
    u.vacuity_targets = []
    u.shard = shard
    u.sharded = []
    u.lost = []
    if not os.path.exists(u.path):
        raise Undecided("no such unit: " + name)
    raw = open(u.path).read().split("\n")
    # .inc includes are unit text themselves (may contain directives): splice them in first
    k = 0
    while k < len(raw):
        st = raw[k].strip()
        if st.startswith("//@include ") and st.endswith(".inc"):
            rel = st.split(None, 1)[1].strip()
            inc = open(os.path.join(VERIF, rel)).read().rstrip("\n").split("\n")
            u.includes.append((rel, sha("\n".join(inc).encode())))
            raw[k:k + 1] = inc
            continue
        k += 1
    i = 0
    n = len(raw)
    while i < n:
        line = raw[i]
        s = line.strip()
        if s.startswith("//@quote-macros"):
            body, path, h = quote_macros()
            u.quote_src = (path, h)
            u.emit(body, {"kind": "quote-macros"})
            i += 1
        elif s.startswith("//@include "):
            rel = s.split(None, 1)[1].strip()
            p = os.path.join(VERIF, rel)
            txt = open(p).read().rstrip("\n")
            u.includes.append((rel, sha(txt.encode())))
            u.emit(txt, {"kind": "include", "path": rel})
            i += 1
        elif s.startswith("//@item "):
            parts = s.split()
            file, nm = parts[1], None
            rest = s[len("//@item "):].strip()
            file, rest = rest.split(None, 1)
            derive = None
            extra_attr = []
            force_pub = False
            m = re.search(r"\s+vis=pub$", rest)
            if m:
                force_pub = True
                rest = rest[:m.start()]
            m = re.search(r"\s+derive=([A-Za-z0-9_,:]*)$", rest)
            if m:
                derive = [x for x in m.group(1).split(",") if x]
                rest = rest[:m.start()]
            nm = rest.strip()
            emit_item(u, file, nm, derive, force_pub)
            i += 1
        elif s.startswith("//@stub "):
            rest = s[len("//@stub "):]
            lhs, sig = rest.split("::=", 1)
            file, nm = lhs.split(None, 1)
            check_stub(u, file.strip(), nm.strip(), sig.strip())
            i += 1
        elif s.startswith("//@assume "):
            # //@assume <unit> <file> <fn> : the contract proved for <fn> in <unit>, reused here as an assumed callee contract
            _, un2, file, nm = s.split(None, 3)
            emit_assumed(u, un2.strip(), file.strip(), nm.strip())
            i += 1
        elif s.startswith("//@fn "):
            rest = s[len("//@fn "):].strip()
            file, nm = rest.split(None, 1)
            j = i + 1
            block = []
            while j < n and raw[j].strip() != "//@end":
                block.append(raw[j])
                j += 1
            if j >= n:
                raise Undecided("unit %s: //@fn %s without //@end" % (name, nm))
            emit_fn(u, file.strip(), nm.strip(), block)
            i = j + 1
        else:
            u.emit(line, {"kind": "unit", "unit_line": i + 1})
            i += 1
    return u


def unit_source_lines(un):
    path = os.path.join(VERIF, "units", un + ".rs")
    raw = open(path).read().split("\n")
    k = 0
    while k < len(raw):
        st = raw[k].strip()
        if st.startswith("//@include ") and st.endswith(".inc"):
            rel = st.split(None, 1)[1].strip()
            raw[k:k + 1] = open(os.path.join(VERIF, rel)).read().rstrip("\n").split("\n")
            continue
        k += 1
    return raw


def emit_assumed(u, un2, file, nm):
    raw = unit_source_lines(un2)
    hdr = "//@fn %s %s" % (file, nm)
    idx = [k for k, l in enumerate(raw) if l.strip() == hdr]
    if len(idx) != 1:
        raise Undecided("//@assume: %s not under contract in unit %s" % (nm, un2))
    k = idx[0] + 1
    spec_lines, ret, mode = [], "r", None
    while raw[k].strip() != "//@end":
        st = raw[k].strip()
        if st.startswith("//@spec"):
            mode = "spec"
        elif st.startswith("//@ret"):
            ret = st.split()[1]
            mode = None
        elif st.startswith("//@"):
            mode = None
        elif mode == "spec":
            spec_lines.append(LABEL_RE.sub("", raw[k]).rstrip())
        k += 1
    it = find_item(file, nm)
    b = src_bytes(file)
    emit_external_stub(u, it, file, nm, ret, spec_lines, {"kind": "assumed", "fn": nm})
    u.stubs.append({"name": nm, "file": file, "line_start": it["line_start"], "line_end": it["line_end"],
                    "signature": b[it["fn_token"]:it["sig_end"]].decode(), "sha256": sha(b[it["start"]:it["end"]]),
                    "proved_in": un2})


def emit_external_stub(u, it, file, nm, ret, spec_lines, info):
    """the function's signature with the given contract and no verified body (external_body)"""
    b = src_bytes(file)
    if it["impl_header"] is not None:
        u.emit(it["impl_header"].rstrip() + " {", info)
        if it.get("impl_extra", "").strip():
            u.emit(it["impl_extra"].rstrip("\n"), info)
    u.emit("#[verifier::external_body]", info)
    sig_start = it["vis"]["end"] if it.get("vis") else it["start"]
    if it["ret_start"] is not None:
        sig_txt = b[sig_start:it["ret_start"]].decode() + "-> (" + ret + ": " + it["ret_ty"] + ")" + b[it["ret_end"]:it["body_open"]].decode().rstrip()
    else:
        sig_txt = b[sig_start:it["body_open"]].decode().rstrip()
    u.emit(sig_txt, info)
    # decreases clauses make no sense on an external_body fn
    for l in spec_lines:
        if re.match(r"\s*decreases\b", l):
            continue
        u.emit(LABEL_RE.sub("", l).rstrip(), info)
    m_it = re.match(r"\s*impl\s+Iterator\s*<\s*Item\s*=\s*(.+)>\s*$", it["ret_ty"] or "")
    if m_it:
        # an opaque return type needs some concrete iterator type behind it (the body is never verified nor run)
        u.emit("{ let e: ::core::option::Option<Empty<%s>> = ::core::option::Option::None; e.unwrap() }" % m_it.group(1), info)
    else:
        u.emit("{ unimplemented!() }", info)
    if it["impl_header"] is not None:
        u.emit("}", info)


def norm_sig(s):
    return re.sub(r"\s+", "", s)


def check_stub(u, file, nm, sig):
    it = find_item(file, nm)
    b = src_bytes(file)
    real = b[it["fn_token"]:it["sig_end"]].decode()
    if norm_sig(real) != norm_sig(sig):
        raise Undecided("anchor lost: signature of %s::%s changed\n  expected: %s\n  found:    %s" % (file, nm, sig, real))
    u.stubs.append({"name": nm, "file": file, "line_start": it["line_start"], "line_end": it["line_end"], "signature": real,
                    "sha256": sha(b[it["start"]:it["end"]])})


def emit_item(u, file, nm, derive, force_pub=False):
    it = find_item(file, nm)
    b = src_bytes(file)
    start, end = it["start"], it["end"]
    pieces = []
    pos = start
    vis = it.get("vis")
    vis_done = False
    for a in it["attrs"]:
        if a["path"] == "derive":
            pieces.append(b[pos:a["start"]])
            if derive is not None:
                pieces.append(("#[derive(%s)]" % ", ".join(derive)).encode())
                u.edits.append("%s::%s: %s replaced by #[derive(%s)]" % (file, nm, a["text"], ", ".join(derive)))
            else:
                u.edits.append("%s::%s: %s dropped" % (file, nm, a["text"]))
            pos = a["end"]
    if it["kind"] in ("struct", "enum", "type", "const") and vis is not None:
        # the whole unit is one private module: item visibility is dropped (Verus refuses `pub(crate)` datatypes
        # in specs and refuses private spec fns in contracts of `pub` fns)
        pieces.append(b[pos:vis["start"]])
        if force_pub:
            pieces.append(b"pub")
            u.edits.append("%s::%s: visibility `%s` -> `pub`" % (file, nm, b[vis["start"]:vis["end"]].decode()))
        else:
            u.edits.append("%s::%s: visibility `%s` dropped" % (file, nm, b[vis["start"]:vis["end"]].decode()))
        pos = vis["end"]
    if it["kind"] in ("struct", "enum", "type", "const") and vis is None and force_pub:
        last_attr_end = max([a["end"] for a in it["attrs"]] + [start])
        base = max(pos, last_attr_end)
        m = re.match(rb"\s*", b[base:end])
        ins = base + m.end()
        pieces.append(b[pos:ins])
        pieces.append(b"pub ")
        u.edits.append("%s::%s: private -> `pub`" % (file, nm))
        pos = ins
    pieces.append(b[pos:end])
    txt = b"".join(pieces).decode()
    u.emit(txt, {"kind": "item", "item": nm, "src": (file, it["line_start"])})
    u.items.append({"name": nm, "file": file, "line_start": it["line_start"], "line_end": it["line_end"], "sha256": sha(b[start:end])})


def emit_fn(u, file, nm, block):
    it = find_item(file, nm)
    if it["kind"] not in ("fn", "method"):
        raise Undecided("%s::%s is not a function" % (file, nm))
    b = src_bytes(file)
    # ---- parse sub-directives
    props = []
    ret = "r"
    attrs = []
    spec_lines = []
    proof_lines = []
    closures = {}
    etas = []
    loops_spec = {}
    uses = []
    vac_rename = False
    nshards = 0
    mode = None
    cur = None
    drop_ret = False
    for l in block:
        s = l.strip()
        if s.startswith("//@props"):
            props = [x.strip() for x in s[len("//@props"):].replace(",", " ").split()]
            mode = None
        elif s.startswith("//@ret"):
            ret = s.split()[1]
            mode = None
        elif s.startswith("//@attr"):
            attrs.append(s[len("//@attr"):].strip())
            mode = None
        elif s.startswith("//@spec"):
            mode = "spec"
        elif s.startswith("//@proof"):
            mode = "proof"
        elif s.startswith("//@closure"):
            parts = s.split()
            ordn = int(parts[1])
            let = None
            for p in parts[2:]:
                if p.startswith("let="):
                    let = p[4:]
            cur = {"ord": ordn, "let": let, "lines": []}
            closures[ordn] = cur
            mode = "closure"
        elif s.startswith("//@uses"):
            uses.append(s[len("//@uses"):].strip())
            mode = None
        elif s.startswith("//@closures"):
            mode = None
        elif s.startswith("//@loop"):
            parts = s.split()
            cur = {"ord": int(parts[1]), "lines": []}
            loops_spec[cur["ord"]] = cur
            mode = "loop"
        elif s.startswith("//@shard"):
            nshards = int(s.split()[1])
            mode = None
        elif s.startswith("//@eta "):
            # //@eta <Constructor> :: <arg type> -> <result type>   (constructor used as a function value: eta-expanded)
            m = re.match(r"//@eta\s+(\S+)\s+::\s+(.+?)\s+->\s+(.+)$", s)
            if not m:
                raise Undecided("unit %s: malformed //@eta" % u.name)
            etas.append((m.group(1), m.group(2), m.group(3)))
            mode = None
        elif s.startswith("//@"):
            raise Undecided("unit %s: unknown sub-directive %r" % (u.name, s))
        else:
            if mode == "spec":
                spec_lines.append(l)
            elif mode == "proof":
                proof_lines.append(l)
            elif mode == "closure" or mode == "loop":
                cur["lines"].append(l)
            elif s:
                raise Undecided("unit %s: stray text in //@fn %s: %r" % (u.name, nm, s))

    # ---- sharding: a function marked //@shard N is verified in N separate runs, each with a slice of its labelled
    #      ensures clauses (every run re-checks the body obligations); in the main run it is not verified
    if nshards:
        u.sharded.append((nm, nshards))
    sh = getattr(u, "shard", None)
    if sh is not None and not getattr(u, "vacuity", False):
        if sh[0] == nm:
            kept, ordn, in_ens = [], 0, False
            for l in spec_lines:
                if re.match(r"\s*ensures\b", l):
                    in_ens = True
                if re.match(r"\s*(requires|decreases)\b", l):
                    in_ens = False
                if in_ens and LABEL_RE.search(l):
                    keep = (ordn % sh[2]) == sh[1]
                    ordn += 1
                    if not keep:
                        if re.match(r"\s*ensures\b", l):
                            kept.append("    ensures")
                        continue
                kept.append(l)
            spec_lines = kept
        else:
            attrs = attrs + ["#[verifier::external_body]"]
            closures = {}
            proof_lines = []
            etas = []
    elif nshards and not getattr(u, "vacuity", False):
        attrs = attrs + ["#[verifier::external_body]"]
        closures = {}
        proof_lines = []
        etas = []

    # ---- vacuity twin: functions with a precondition get `ensures false` (must be rejected);
    #      all other functions are not re-verified (external_body)
    if getattr(u, "vacuity", False):
        has_req = any(re.match(r"\s*requires\b", l) for l in spec_lines)
        if has_req:
            # keep requires (and decreases); replace every ensures clause by the single clause `false`
            kept, tail, sect = [], [], None
            for l in spec_lines:
                if re.match(r"\s*requires\b", l):
                    sect = "req"
                elif re.match(r"\s*ensures\b", l):
                    sect = "ens"
                elif re.match(r"\s*decreases\b", l):
                    sect = "dec"
                if sect == "req":
                    kept.append(l)
                elif sect == "dec":
                    tail.append(l)
            # callers inside this unit keep seeing the real contract: stub under the real name, verified copy renamed
            emit_external_stub(u, it, file, nm, ret, spec_lines, {"kind": "assumed", "fn": nm})
            spec_lines = kept + ["    ensures false, // #vacuity"] + tail
            u.vacuity_targets.append(nm)
            vac_rename = True
        else:
            attrs = attrs + ["#[verifier::external_body]"]
            closures = {}
            proof_lines = []
            etas = []

    # ---- closure / loop anchors.  A function whose structure no longer matches its contract (closures or loops added or
    #      removed) cannot be verified with the spliced headers: it is emitted as an assumed stub so that the rest of the unit
    #      still verifies, and reported as LOST (the check is then undecided for it unless a bounded twin refutes it).
    real_closures = it["closures"]
    real_closures, perm = closures_in_contract_order(file, nm, real_closures, b)
    vanished = [k for k, rc_ in enumerate(real_closures) if rc_ is None]
    if vanished:
        closures = {k: v for k, v in closures.items() if k not in vanished}
        u.edits.append("%s::%s: closure(s) %s of the contract no longer exist in the source (all remaining closures are unchanged); their contracts are dropped, the code that replaced them is verified inline" % (file, nm, ", ".join("#%d" % k for k in vanished)))
    if perm:
        u.edits.append("%s::%s: closures appear in a different order than when the contract was written; contracts applied by content (%s)" % (file, nm, ", ".join("#%d->source #%d" % p_ for p_ in perm if p_[1] >= 0)))
    lost = None
    expected_closures = None
    for l in block:
        m = re.match(r"\s*//@closures\s+(\d+)", l)
        if m:
            expected_closures = int(m.group(1))
    if closures and expected_closures is None:
        expected_closures = None
    for ordn, c in closures.items():
        if ordn >= len(real_closures):
            lost = "anchor lost: %s::%s has %d closures, contract names closure %d" % (file, nm, len(real_closures), ordn)
        elif c["let"] is not None and real_closures[ordn]["let_name"] is None:
            # the contract was written for a closure bound to a local (its name may change: a harmless edit)
            lost = "anchor lost: %s::%s closure %d is no longer bound by a `let` (was `let %s`)" % (file, nm, ordn, c["let"])
    if lost is None and closures and not vanished and len(real_closures) != max(closures.keys()) + 1 and expected_closures is None:
        # every contract in this code base annotates all closures of its function: a different count is a restructuring
        if len(closures) == max(closures.keys()) + 1:
            lost = "anchor lost: %s::%s has %d closures, contract annotates %d" % (file, nm, len(real_closures), len(closures))
    for ordn in loops_spec:
        if ordn >= len(it.get("loops", [])):
            lost = "anchor lost: %s::%s has %d loops, contract names loop %d" % (file, nm, len(it.get("loops", [])), ordn)
    if lost is not None:
        u.lost.append({"fn": nm, "file": file, "reason": lost, "props": props})
        if vac_rename:
            # vacuity twin: the stub under the real name is already there; no verified copy for a lost function
            u.vacuity_targets.remove(nm)
            return
        emit_external_stub(u, it, file, nm, ret, spec_lines, {"kind": "assumed", "fn": nm})
        u.functions.append({"name": nm, "file": file, "line_start": it["line_start"], "line_end": it["line_end"],
                            "sha256": sha(b[it["start"]:it["end"]]), "props": props, "closures_under_contract": [], "closures_total": len(real_closures),
                            "panic_sites": it["panic_sites"], "calls": it.get("calls", []), "lost": lost})
        return
    fname = nm
    first_line = len(u.out_lines) + 1
    info_base = {"kind": "fn", "fn": fname, "props": props}

    # impl wrapper
    if it["impl_header"] is not None:
        u.emit(it["impl_header"].rstrip() + " {", {"kind": "impl-header", "fn": fname, "props": props})
        if it.get("impl_extra", "").strip():
            u.emit(it["impl_extra"].rstrip("\n"), {"kind": "impl-header", "fn": fname, "props": props})
    for a in attrs:
        u.emit(a, dict(info_base, part="attr"))

    # ---- signature
    sig_start = it["start"]
    if it.get("vis") is not None:
        v = it["vis"]
        u.edits.append("%s::%s: visibility `%s` dropped" % (file, nm, b[v["start"]:v["end"]].decode()))
        sig_start = v["end"]
    # drop attributes of the fn itself? keep verbatim (none in this code base carry meaning for verus)
    if it["ret_start"] is not None:
        head = b[sig_start:it["ret_start"]].decode()
        ret_ty = it["ret_ty"]
        tail = b[it["ret_end"]:it["body_open"]].decode()
        sig_txt = head + "-> (" + ret + ": " + ret_ty + ")" + tail.rstrip()
        u.edits.append("%s::%s: return value named `%s`" % (file, nm, ret))
    else:
        sig_txt = b[sig_start:it["body_open"]].decode().rstrip()
    if vac_rename:
        last = nm.split("::")[-1]
        sig_txt, nsub = re.subn(r"\bfn\s+%s\b" % re.escape(last), "fn %s__vac" % last, sig_txt, count=1)
        if nsub != 1:
            raise Undecided("internal: cannot rename %s for the vacuity twin" % nm)
    u.emit(sig_txt, dict(info_base, part="sig", src=(file, it["line_start"])))
    # ---- spec clauses
    for l in spec_lines:
        m = LABEL_RE.search(l)
        inf = dict(info_base, part="spec")
        if m:
            inf["label"] = m.group(1)
            if m.group(2):
                inf["props"] = [x.strip() for x in m.group(2).split(",") if x.strip()]
                inf["explicit_props"] = True
            u.labels.append({"fn": fname, "label": m.group(1), "props": inf["props"], "text": LABEL_RE.sub("", l).strip()})
        u.emit(l, inf)
    # ---- body with closure headers replaced
    body_open = it["body_open"]
    body_close = it["body_close"]
    # line number of body_open in source
    def src_line(off):
        return b.count(b"\n", 0, off) + 1

    u.emit("{", dict(info_base, part="body", src=(file, src_line(body_open))))
    if uses and "#[verifier::external_body]" not in attrs:
        u.emit("broadcast use {%s};" % ", ".join(uses), dict(info_base, part="proof"))
        u.edits.append("%s::%s: `broadcast use` of proved lemmas inserted after the opening brace" % (file, nm))
    if proof_lines:
        u.emit("proof {", dict(info_base, part="proof"))
        for l in proof_lines:
            u.emit(l, dict(info_base, part="proof"))
        u.emit("}", dict(info_base, part="proof"))
        u.edits.append("%s::%s: ghost proof block inserted after the opening brace (%d lines)" % (file, nm, len(proof_lines)))
    # body text between braces, with replacements
    pos = body_open + 1
    # skip the newline directly after the brace to keep line mapping simple
    segs = []  # list of (text, srcline or None, extra-info)
    events = []
    for ordn in sorted(closures):
        rc = real_closures[ordn]
        events.append((rc["start"], rc["header_end"], closures[ordn], rc))
    # nested closures: replacement ranges never overlap since we only replace headers (and add braces around bodies)
    inserts = []  # (offset, kind, payload)
    for (hs, he, c, rc) in events:
        inserts.append((hs, he, "header", c, rc))
        if not rc["body_is_block"]:
            inserts.append((rc["body_start"], rc["body_start"], "open", c, rc))
            inserts.append((rc["body_end"], rc["body_end"], "close", c, rc))
    real_loops = it.get("loops", [])
    for ordn, lp in loops_spec.items():
        if ordn >= len(real_loops):
            raise Undecided("anchor lost: %s::%s has %d loops, contract names loop %d" % (file, nm, len(real_loops), ordn))
        if "#[verifier::external_body]" in attrs:
            continue
        off = real_loops[ordn]["body_open"]
        head = [l for l in lp["lines"] if not l.strip().startswith("@body ")]
        inner = [l.strip()[len("@body "):] for l in lp["lines"] if l.strip().startswith("@body ")]
        inserts.append((off, off, "loopspec", {"ord": ordn, "lines": head, "let": None}, None))
        if inner:
            inserts.append((off + 1, off + 1, "loopbody", {"ord": ordn, "lines": inner, "let": None}, None))
    inserts.sort(key=lambda x: (x[0], 0 if x[2] == "close" else 1))
    out = []  # list of (text, src_offset or None, info_extra)
    for (a, e, kind, c, rc) in inserts:
        if a < pos:
            raise Undecided("internal: overlapping closure splice in %s" % nm)
        out.append((b[pos:a].decode(), pos, None))
        if kind == "header":
            hdr = "\n".join(c["lines"]).strip("\n")
            hdr, renamed = follow_param_renames(hdr, b[a:e].decode())
            if renamed:
                u.edits.append("%s::%s: closure #%d: contract parameters renamed to the source's (%s)" % (file, nm, c["ord"], ", ".join("%s->%s" % p for p in renamed)))
            out.append((hdr, None, {"part": "closure-header", "closure": c["ord"]}))
            u.edits.append("%s::%s: closure #%d header `%s` replaced by annotated header" % (file, nm, c["ord"], b[a:e].decode()))
            pos = e
        elif kind == "loopspec":
            out.append(("\n" + "\n".join(c["lines"]).strip("\n") + "\n", None, {"part": "loop-spec", "loop": c["ord"]}))
            u.edits.append("%s::%s: loop #%d: invariant / decreases clauses inserted before the loop body" % (file, nm, c["ord"]))
            pos = a
        elif kind == "loopbody":
            out.append(("\n" + "\n".join(c["lines"]) + "\n", None, {"part": "loop-spec", "loop": c["ord"]}))
            u.edits.append("%s::%s: loop #%d: ghost `broadcast use` of proved lemmas inserted at the start of the loop body" % (file, nm, c["ord"]))
            pos = a
        elif kind == "open":
            out.append((" {", None, {"part": "closure-brace"}))
            u.edits.append("%s::%s: closure #%d body wrapped in braces" % (file, nm, c["ord"]))
            pos = a
        else:
            out.append(("} ", None, {"part": "closure-brace"}))
            pos = a
    out.append((b[pos:body_close - 1].decode(), pos, None))
    # eta-expansion of constructors used as function values (unsupported by Verus): `(Ctor)` -> `(|v: T| -> (r: R) ensures r == Ctor(v) { Ctor(v) })`
    if getattr(u, "vacuity", False) and not any(re.match(r"\s*requires\b", l) for l in spec_lines):
        pass
    for (ctor, aty, rty) in etas:
        cnt = 0
        new_out = []
        for (txt, off, extra) in out:
            if extra is None and ("(" + ctor + ")") in txt:
                cnt += txt.count("(" + ctor + ")")
                txt = txt.replace("(" + ctor + ")", "(|v: %s| -> (r: %s) ensures r == %s(v) { %s(v) })" % (aty, rty, ctor, ctor))
            new_out.append((txt, off, extra))
        out = new_out
        if cnt != 1:
            raise Undecided("anchor lost: %s::%s uses `%s` as a function value %d times (expected 1)" % (file, nm, ctor, cnt))
        u.edits.append("%s::%s: constructor `%s` used as a function value eta-expanded to a closure" % (file, nm, ctor))
    # now emit `out` keeping track of lines
    cur_line_parts = []
    cur_info = None

    def flush():
        nonlocal cur_line_parts, cur_info
        u.emit("".join(cur_line_parts), cur_info if cur_info else dict(info_base, part="body"))
        cur_line_parts = []
        cur_info = None

    for (txt, off, extra) in out:
        if extra is None:
            # `ghost` / `tracked` are contextual keywords of Verus' `let`; a Rust local of that name is written as a raw identifier
            # (the same identifier to rustc)
            txt2 = re.sub(r"\blet(\s+mut)?\s+(ghost|tracked)\b(?=\s*[=:;])", lambda m_: "let%s r#%s" % (m_.group(1) or "", m_.group(2)), txt)
            if txt2 != txt:
                u.edits.append("%s::%s: local named `ghost` / `tracked` written as a raw identifier in its `let` (Verus keyword)" % (file, nm))
                txt = txt2
        lines = txt.split("\n")
        for k, l in enumerate(lines):
            if k > 0:
                flush()
            cur_line_parts.append(l)
            if extra is not None:
                # spliced text: annotate (wins over source info for this line); keep the closure ordinal and source line if known
                keep = {}
                if cur_info is not None:
                    for kk in ("closure", "src"):
                        if kk in cur_info:
                            keep[kk] = cur_info[kk]
                cur_info = dict(info_base, **dict(keep, **extra))
            elif cur_info is None and off is not None:
                lno = src_line(off) + k
                cur_info = dict(info_base, part="body", src=(file, lno - 0))
                # src tuple must not be shifted by emit(): emit shifts by index within a multi-line text; single line here
    flush()
    u.emit("}", dict(info_base, part="body", src=(file, it["line_end"])))
    if it["impl_header"] is not None:
        u.emit("}", {"kind": "impl-header", "fn": fname})
    last_line = len(u.out_lines)
    u.fn_ranges.append((first_line, last_line, fname, props))
    u.functions.append({"name": nm, "file": file, "line_start": it["line_start"], "line_end": it["line_end"],
                        "sha256": sha(b[it["start"]:it["end"]]), "props": props,
                        "closures_under_contract": sorted(closures.keys()), "closures_total": len(real_closures),
                        "panic_sites": it["panic_sites"], "calls": it.get("calls", [])})


# -------------------------------------------------------------------------------------------------
# running verus

def scan_assumptions(text):
    """mechanical scan of the assembled unit for everything that is assumed rather than proved"""
    res = {"external_body": [], "assume_specification": [], "assume": [], "admit": [], "axiom": [], "external": []}
    lines = text.split("\n")
    for i, l in enumerate(lines):
        s = l.strip()
        if s.startswith("//"):
            continue
        if "external_body" in s:
            # name = next fn/struct line
            nm = "?"
            for k in range(i, min(i + 6, len(lines))):
                m = re.search(r"\b(fn|struct|enum)\s+([A-Za-z0-9_]+)", lines[k])
                if m:
                    nm = m.group(1) + " " + m.group(2)
                    break
            res["external_body"].append(nm)
        if "assume_specification" in s:
            res["assume_specification"].append(s[:160])
        if re.search(r"\bassume\s*\(", s):
            res["assume"].append("line %d: %s" % (i + 1, s[:120]))
        if re.search(r"\badmit\s*\(", s):
            res["admit"].append("line %d: %s" % (i + 1, s[:120]))
        if re.search(r"\baxiom fn\b|broadcast axiom|#\[verifier::external\]", s):
            res["axiom"].append("line %d: %s" % (i + 1, s[:120]))
    return res



def _closure_param_names(header):
    """names of the parameters of a closure header `[move] |a, b: T| ...` if every parameter is a plain identifier, else None"""
    i = header.find("|")
    if i < 0:
        return None
    j = header.find("|", i + 1)
    if j < 0:
        return None
    inner = header[i + 1:j].strip()
    if not inner:
        return []
    parts, depth, cur = [], 0, ""
    for ch in inner:
        if ch in "(<[":
            depth += 1
        elif ch in ")>]":
            depth -= 1
        if ch == "," and depth == 0:
            parts.append(cur)
            cur = ""
        else:
            cur += ch
    if cur.strip():
        parts.append(cur)
    names = []
    for p_ in parts:
        n = p_.split(":", 1)[0].strip()
        n = re.sub(r"^mut\s+", "", n)
        if not re.match(r"^[A-Za-z_][A-Za-z0-9_]*$", n):
            return None
        names.append(n)
    return names


def follow_param_renames(contract_header, real_header):
    """a closure contract names the closure's parameters; if the source renamed them (a harmless edit), rename them in the contract
    text too (whole words, simultaneously).  Anything but plain identifier parameters, or a different count, is left alone."""
    mine, real = _closure_param_names(contract_header), _closure_param_names(real_header)
    if not mine or real is None or len(mine) != len(real) or mine == real:
        return contract_header, []
    mapping = [(m, r_) for m, r_ in zip(mine, real) if m != r_]
    tmp = contract_header
    for k, (m, _) in enumerate(mapping):
        tmp = re.sub(r"\b%s\b" % re.escape(m), "\x00%d\x00" % k, tmp)
    for k, (_, r_) in enumerate(mapping):
        tmp = tmp.replace("\x00%d\x00" % k, r_)
    return tmp, mapping



def closure_fingerprint(cl, b):
    """content hash of a closure: its source text without whitespace, parameter names replaced by positions"""
    txt = b[cl["start"]:cl["body_end"]].decode()
    names = _closure_param_names(txt[:cl["header_end"] - cl["start"]]) or []
    for k, n in enumerate(names):
        txt = re.sub(r"\b%s\b" % re.escape(n), "\x01%d" % k, txt)
    return hashlib.sha1(re.sub(r"\s+", "", txt).encode()).hexdigest()[:16]


_SNAP = None


def closures_in_contract_order(file, nm, real, b):
    """Contracts name closures by ordinal.  units/closure_fingerprints.json records, for the tree the contracts were written
    against, the content hash of each closure by ordinal.  If the source now holds the same closures in another order (statements
    were reordered - a harmless edit), re-order them so that contract #k meets the closure it was written for.  Closures whose
    content changed keep their relative order.  Returns (closures indexed by contract ordinal, [(contract ord, source ord)] if permuted)."""
    global _SNAP
    if _SNAP is None:
        try:
            _SNAP = json.load(open(os.path.join(VERIF, "units", "closure_fingerprints.json")))
        except Exception:
            _SNAP = {}
    snap = _SNAP.get("%s::%s" % (file, nm))
    if snap and len(real) < len(snap):
        # closures were removed (e.g. `opt.map_or(d, |x| f(x))` unfolded into a `match`).  If every closure that is still there is,
        # by content, one of the recorded ones, the contracts of the survivors apply and those of the vanished ones are dropped:
        # the code that replaced a closure is verified inline like any other statement.
        cur = [closure_fingerprint(c, b) for c in real]
        assign, used = {}, set()
        for j, fj in enumerate(cur):
            ks = [k for k, fp in enumerate(snap) if fp == fj and k not in used]
            if not ks:
                return real, []            # a surviving closure also changed: ambiguous, handled as a lost anchor by the caller
            assign[ks[0]] = j
            used.add(ks[0])
        out = [real[assign[k]] if k in assign else None for k in range(len(snap))]
        return out, [(k, assign.get(k, -1)) for k in range(len(snap)) if assign.get(k, -1) != k]
    if not snap or len(snap) != len(real):
        return real, []
    cur = [closure_fingerprint(c, b) for c in real]
    if cur == snap:
        return real, []
    assign = [None] * len(snap)
    used = [False] * len(real)
    for k, fp in enumerate(snap):          # same content: first unused occurrence
        for j, fj in enumerate(cur):
            if not used[j] and fj == fp:
                assign[k], used[j] = j, True
                break
    rest = [j for j in range(len(real)) if not used[j]]
    for k in range(len(snap)):             # changed content: keep relative order
        if assign[k] is None:
            assign[k] = rest.pop(0)
    if assign == list(range(len(real))):
        return real, []
    return [real[j] for j in assign], [(k, j) for k, j in enumerate(assign) if k != j]


def run_verus(unit_name, text, workdir, extra_args=None, timeout=2400):
    os.makedirs(workdir, exist_ok=True)
    path = os.path.join(workdir, "unit_%s.rs" % unit_name)
    with open(path, "w") as f:
        f.write(text)
    cmd = ["verus", path, "--output-json", "--time", "--error-format=json", "--crate-type=lib", "--rlimit", str(RLIMIT), "--num-threads", "8"] + (extra_args or [])
    env = dict(os.environ)
    try:
        p = subprocess.run(cmd, capture_output=True, text=True, timeout=timeout, env=env, cwd=workdir)
    except subprocess.TimeoutExpired:
        raise Undecided("verus timed out after %ds on unit %s" % (timeout, unit_name))
    try:
        out = json.loads(p.stdout)
    except Exception:
        out = None
    diags = []
    for l in p.stderr.split("\n"):
        l = l.strip()
        if l.startswith("{"):
            try:
                diags.append(json.loads(l))
            except Exception:
                pass
    return {"cmd": " ".join(cmd), "rc": p.returncode, "out": out, "diags": diags, "stderr": p.stderr, "path": path}


VERIF_MSGS = (
    "postcondition not satisfied",
    "precondition not satisfied",
    "assertion failed",
    "unable to prove post-condition of closure",
    "invariant not satisfied",
    "decreases not satisfied",
    "possible arithmetic underflow/overflow",
    "possible division by zero",
    "unable to prove assertion safety condition",
    "recommendation not met",
    "could not prove termination",
    "precondition of closure not satisfied",
)


def classify(unit, res):
    """returns dict(status=ok|failed|undecided, failures=[...], reason=..., functions=[...], smt_ms=...)"""
    out = res["out"]
    if out is None:
        return {"status": "undecided", "reason": "verus produced no JSON (rc=%s): %s" % (res["rc"], res["stderr"][-2000:]), "failures": []}
    vr = out.get("verification-results", {})
    errors = [d for d in res["diags"] if d.get("level") == "error"]
    failures = []
    other = []
    for d in errors:
        msg = d.get("message", "")
        if msg.startswith("aborting due to"):
            continue
        if any(msg.startswith(m) or m in msg for m in VERIF_MSGS):
            failures.append(d)
        else:
            other.append(d)
    funcs = []
    smt_ms = 0
    try:
        for m in out["times-ms"]["smt"]["smt-run-module-times"]:
            for f in m.get("function-breakdown", []):
                funcs.append({"function": f["function"], "mode": f.get("mode:"), "time_us": f.get("time-micros"), "rlimit": f.get("rlimit"), "success": f.get("success")})
        smt_ms = out["times-ms"]["smt"]["total"]
    except Exception:
        pass
    if other or vr.get("encountered-vir-error"):
        msgs = "; ".join((d.get("message", "") + " @" + ",".join("%s" % s["line_start"] for s in d.get("spans", []) if s.get("is_primary"))) for d in other[:5])
        return {"status": "undecided", "reason": "verus rejected the unit (not a verification failure): " + msgs, "failures": [], "functions": funcs,
                "raw": other}
    # rlimit / timeouts are reported as errors with specific text
    for d in failures:
        pass
    named = []
    for d in failures:
        msg = d["message"]
        spans = d.get("spans", [])
        prim = [s for s in spans if s.get("is_primary")]
        sec = [s for s in spans if not s.get("is_primary")]
        unit.last_explicit = False
        name, props, where, fnn = name_failure(unit, msg, prim, sec)
        named.append({"obligation": name, "props": props, "message": msg, "where": where, "rendered": d.get("rendered", ""), "fn": fnn,
                      "explicit_props": bool(unit.last_explicit)})
    # resource-limit style messages
    for d in res["diags"]:
        m = d.get("message", "")
        if "Resource limit" in m or "rlimit" in m or "timed out" in m.lower():
            return {"status": "undecided", "reason": "solver resource limit: " + m, "failures": [], "functions": funcs}
    if named:
        return {"status": "failed", "failures": named, "functions": funcs, "smt_ms": smt_ms, "verified": vr.get("verified"), "errors": vr.get("errors")}
    if not vr.get("success"):
        return {"status": "undecided", "reason": "verus reports no success but no classified failure: " + res["stderr"][-1500:], "failures": [], "functions": funcs}
    return {"status": "ok", "failures": [], "functions": funcs, "smt_ms": smt_ms, "verified": vr.get("verified"), "errors": vr.get("errors")}


def fn_at(unit, line):
    for (a, e, nm, props) in unit.fn_ranges:
        if a <= line <= e:
            return nm, props
    return None, []


def name_failure(unit, msg, prim, sec):
    """obligation name + property tags for one verus error"""
    lines = [s["line_start"] for s in prim] + [s["line_start"] for s in sec]
    label = None
    props = None
    fn = None
    where = []
    # 1. a labelled clause among the spans
    for s in prim + sec:
        for ln in range(s["line_start"], s["line_end"] + 1):
            inf = unit.linemap.get(ln)
            if inf and inf.get("label"):
                label = inf["label"]
                props = inf.get("props")
                if inf.get("explicit_props"):
                    unit.last_explicit = True
                fn = inf.get("fn")
                break
        if label:
            break
    # 2. the function whose body contains the primary span
    body_fn = None
    body_props = []
    src_ref = None
    for s in prim + sec:
        f, p = fn_at(unit, s["line_start"])
        if f:
            inf = unit.linemap.get(s["line_start"], {})
            if inf.get("part") in ("body", "closure-header", "closure-brace", "sig", None) or body_fn is None:
                body_fn, body_props = f, p
                if inf.get("src"):
                    src_ref = inf["src"]
                if inf.get("part") == "body":
                    break
    for s in prim + sec:
        inf = unit.linemap.get(s["line_start"], {})
        where.append({"unit_line": s["line_start"], "label": s.get("label"), "src": inf.get("src"), "part": inf.get("part"),
                      "text": (s.get("text") or [{}])[0].get("text", "").strip()[:200]})
    short = msg.split(":")[0].strip().replace(" ", "-")
    if label:
        if "precondition" in msg and body_fn and body_fn != fn:
            # a caller failed the labelled precondition of `fn`
            name = "%s::calls(%s).requires[%s]" % (body_fn, fn, label)
            props = sorted(set((props or []) + body_props))
            if src_ref:
                name += "@%s:%d" % src_ref
            return name, props or body_props, where, body_fn
        else:
            name = "%s.ensures[%s]" % (fn, label) if "postcondition" in msg or "post-condition" in msg else "%s.%s[%s]" % (fn, short, label)
        return name, props or body_props, where, fn
    if body_fn:
        cl = None
        for sp in prim + sec:
            inf = unit.linemap.get(sp["line_start"], {})
            if "closure" in inf:
                cl = inf["closure"]
                break
        if cl is not None and "closure" in msg:
            name = "%s.closure#%d.ensures" % (body_fn, cl)
            if src_ref:
                name += "@%s:%d" % src_ref
            return name, body_props, where, body_fn
        name = "%s::%s" % (body_fn, short)
        if src_ref:
            name += "@%s:%d" % src_ref
        return name, body_props, where, body_fn
    # failure inside pure unit text (a lemma)
    for s in prim:
        inf = unit.linemap.get(s["line_start"], {})
        if inf.get("kind") == "unit":
            # find enclosing proof fn name by scanning backwards
            nm = enclosing_unit_fn(unit, s["line_start"])
            return "%s::%s" % (nm, short), unit_fn_props(unit, nm), where, nm
    return "unit-%s::%s@%s" % (unit.name, short, lines[:1]), [], where, None


def enclosing_unit_fn(unit, line):
    for ln in range(line, 0, -1):
        m = re.search(r"\b(?:proof|spec|exec)?\s*fn\s+([A-Za-z0-9_]+)", unit.out_lines[ln - 1])
        if m and unit.linemap.get(ln, {}).get("kind") == "unit":
            return m.group(1)
    return "?"


def unit_fn_props(unit, nm):
    """props for a lemma written in the unit text: a comment `// props: C05,C06` directly above the fn"""
    for ln, l in enumerate(unit.out_lines):
        if re.search(r"\bfn\s+%s\b" % re.escape(nm), l):
            for k in range(ln - 1, max(ln - 4, -1), -1):
                m = re.search(r"//\s*props:\s*([A-Z0-9, ]+)", unit.out_lines[k])
                if m:
                    return [x.strip() for x in m.group(1).split(",") if x.strip()]
    return []


if __name__ == "__main__":
    name = sys.argv[1]
    try:
        u = parse_unit(name)
    except Undecided as e:
        print("UNDECIDED:", e)
        sys.exit(2)
    wd = sys.argv[2] if len(sys.argv) > 2 else os.path.join(VERIF, "build", "units")
    os.makedirs(wd, exist_ok=True)
    res = run_verus(name, u.text(), wd, extra_args=["--multiple-errors", "40"])
    c = classify(u, res)
    for f in c.get("failures", []):
        f.pop("rendered", None)
    print(json.dumps({k: v for k, v in c.items() if k not in ("raw",)}, indent=1)[:60000])
    if c["status"] == "undecided":
        for d in c.get("raw", [])[:8]:
            print(d.get("rendered", "")[:1500])



def unit_lemmas(unit):
    """proof fns written in the unit text (not spliced code): name, props (from a `// props:` comment), signature"""
    res = []
    for ln, l in enumerate(unit.out_lines):
        inf = unit.linemap.get(ln + 1, {})
        if inf.get("kind") != "unit":
            continue
        m = re.match(r"\s*(?:pub\s+)?(?:broadcast\s+)?proof fn\s+([A-Za-z0-9_]+)", l)
        if m:
            res.append({"name": m.group(1), "props": unit_fn_props(unit, m.group(1)), "sig": l.strip()})
    return res
