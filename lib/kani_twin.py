"""Kani twins (engine K): bounded harnesses over the *compiled* lookup functions of o2o-impl.

They never decide a property on their own.  Uses:
  * counterexample source when Verus rejects an obligation of a twinned function;
  * stand-in when a Verus anchor is lost (a function was restructured): a twin FAILURE is a violation with a
    concrete counterexample; a twin SUCCESS leaves the function *undecided* (bounded: lists of <= 2 entries);
  * thorough tier: all twins of the functions a property depends on, reported as bounded in the evidence.
"""
import os
import re
import shutil
import subprocess
import concurrent.futures

VERIF = os.path.dirname(os.path.dirname(os.path.abspath(__file__)))
REPO = os.environ.get("O2O_REPO", "/repo")

# function under contract -> harness
TWINS = {
    "MemberAttrs::lit": "twin_lit",
    "MemberAttrs::pat": "twin_pat",
    "MemberAttrs::type_hint": "twin_type_hint",
    "MemberAttrs::child": "twin_child",
    "DataTypeAttrs::where_attr": "twin_where_attr",
    "DataTypeAttrs::child_parents_attr": "twin_child_parents_attr",
    "MemberAttrs::ghost": "twin_ghost",
    "DataTypeAttrs::ghosts_attr": "twin_ghosts_attr",
    "MemberAttrs::has_parent_attr": "twin_parent_lookups",
    "MemberAttrs::has_parameterless_parent_attr": "twin_parent_lookups",
    "MemberAttrs::parameterized_parent_attr": "twin_parent_lookups",
    "MemberAttrs::applicable_attr": "twin_applicable_attr",
    "MemberAttrs::field_attr": "twin_field_attr_and_validation_view",
    "MemberAttrs::field_attr_core": "twin_field_attr_and_validation_view",
    "MemberAttrs::applicable_field_attr": "twin_field_attr_and_validation_view",
    "MemberAttrs::iter_for_kind": "twin_field_attr_and_validation_view",
    "MemberAttrs::iter_for_kind_core": "twin_field_attr_and_validation_view",
    "ParentChildField::get_for_kind": "twin_get_for_kind",
    "appl_owned_into": "twin_tables_all_names",
    "appl_ref_into": "twin_tables_all_names",
    "appl_from_owned": "twin_tables_all_names",
    "appl_from_ref": "twin_tables_all_names",
    "appl_owned_into_existing": "twin_tables_all_names",
    "appl_ref_into_existing": "twin_tables_all_names",
}
BOUND = "lists of at most 2 entries; counterpart types {A (queried), B}; all 6 kinds; symbolic applicability bits and fallibility"
COMPLETE = {"twin_tables_all_names"}  # finite domain fully enumerated (24 instruction names + 2 others)


def prepare(workdir):
    """scratch copy of o2o-impl with the harness module appended (no line of /repo is changed)"""
    d = os.path.join(workdir, "kani_crate")
    if os.path.exists(d):
        shutil.rmtree(d)
    os.makedirs(d)
    shutil.copytree(os.path.join(REPO, "o2o-impl", "src"), os.path.join(d, "src"))
    shutil.copy(os.path.join(VERIF, "kani", "Cargo.toml.tmpl"), os.path.join(d, "Cargo.toml"))
    shutil.copy(os.path.join(REPO, "Cargo.lock"), os.path.join(d, "Cargo.lock"))
    with open(os.path.join(d, "src", "attr.rs"), "a") as f:
        f.write(open(os.path.join(VERIF, "kani", "harness_attr.rs")).read())
    lib = os.path.join(d, "src", "lib.rs")
    s = open(lib).read()
    s = re.sub(r"(?m)^mod tests;\s*$", "", s)
    open(lib, "w").write(s)
    return d


def run_one(crate, harness, timeout=1500):
    env = dict(os.environ, CARGO_NET_OFFLINE="true")
    cmd = ["cargo", "kani", "--harness", harness, "-Z", "concrete-playback", "--concrete-playback=print"]
    try:
        p = subprocess.run(cmd, cwd=crate, capture_output=True, text=True, timeout=timeout, env=env)
    except subprocess.TimeoutExpired:
        return {"harness": harness, "status": "timeout", "cmd": " ".join(cmd)}
    out = p.stdout + p.stderr
    m = re.search(r"VERIFICATION:- (SUCCESSFUL|FAILED)", out)
    if not m:
        return {"harness": harness, "status": "error", "cmd": " ".join(cmd), "output": out[-3000:]}
    failed = re.findall(r"Failed Checks: (.*)", out)
    tm = re.search(r"Verification Time: ([0-9.]+)s", out)
    nchecks = re.search(r"\*\* (\d+) of (\d+) failed", out)
    playback = None
    k = out.find("Concrete playback unit test")
    if k >= 0:
        playback = out[k:k + 3000]
    return {"harness": harness, "status": "ok" if m.group(1) == "SUCCESSFUL" else "failed", "failed_checks": failed,
            "time_s": float(tm.group(1)) if tm else None, "checks": int(nchecks.group(2)) if nchecks else None,
            "playback": playback, "cmd": " ".join(cmd), "bound": "complete (finite domain)" if harness in COMPLETE else BOUND}


def run(harnesses, workdir):
    harnesses = sorted(set(harnesses))
    if not harnesses:
        return {}
    crate = prepare(workdir)
    # build once (first harness compiles the crate), then the rest in parallel
    res = {}
    first = run_one(crate, harnesses[0])
    res[harnesses[0]] = first
    with concurrent.futures.ThreadPoolExecutor(max_workers=6) as ex:
        futs = {ex.submit(run_one, crate, h): h for h in harnesses[1:]}
        for f in concurrent.futures.as_completed(futs):
            res[futs[f]] = f.result()
    shutil.rmtree(crate, ignore_errors=True)
    return res


if __name__ == "__main__":
    import sys
    import json
    hs = sys.argv[1:] or sorted(set(TWINS.values()))
    r = run(hs, os.path.join(VERIF, "build", "kani_cli"))
    for h, v in sorted(r.items()):
        print(h, v["status"], v.get("time_s"), v.get("failed_checks"))
