"""Checks that are not verifier proofs: exhaustive enumerations of finite sets read from the real source.
Reported separately in the evidence (DESIGN section 4, C20)."""


def run(prop, tier):
    return {"violations": [], "report": {}}
