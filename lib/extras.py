"""Checks that are not verifier proofs: exhaustive enumerations of finite sets read from the real source.
Reported separately in the evidence (DESIGN section 4, C20)."""
import assemble as A

KEYWORDS = {"impl", "for", "fn", "let", "mut", "match", "type", "where", "as", "self", "_"}
LIB_PATHS = {"core", "convert", "result", "Result", "From", "TryFrom", "Into", "TryInto", "o2o", "traits", "IntoExisting",
             "TryIntoExisting", "Default", "default", "Ok", "Error"}
METHODS = {"from", "try_from", "into", "try_into", "into_existing", "try_into_existing"}
BINDERS = {"value", "other", "obj"}
ALPHABET = KEYWORDS | LIB_PATHS | METHODS | BINDERS
FORMAT_IDENT_PATTERNS = {'"f{}"'}


def c20_alphabet():
    """every literal identifier of every quote!/parse_quote!/format_ident! template in o2o-impl/src belongs to the fixed alphabet
    (keywords, ::core::convert / ::core::result::Result / o2o::traits paths, Default::default, Ok, the six method names,
    the binders value/self/other/obj).  Anything else - in particular `std` or `alloc` - is a violation."""
    d = A.all_items()
    viol = []
    n_templates = 0
    n_idents = 0
    seen = set()
    for t in d["templates"]:
        n_templates += 1
        if t["macro"] == "format_ident":
            for l in t["lits"]:
                if l not in FORMAT_IDENT_PATTERNS:
                    viol.append({"obligation": "template-alphabet@%s:%d" % (t["file"], t["line"]), "props": ["C20"],
                                 "message": "format_ident! pattern %s is not one of %s" % (l, sorted(FORMAT_IDENT_PATTERNS)),
                                 "failing_input": None, "rendered": "%s:%d %s!(.. %s ..)" % (t["file"], t["line"], t["macro"], l)})
            continue
        for i in t["idents"]:
            n_idents += 1
            seen.add(i)
            if i not in ALPHABET:
                viol.append({"obligation": "template-alphabet@%s:%d" % (t["file"], t["line"]), "props": ["C20"],
                             "message": "identifier `%s` in a %s! template is not in the alphabet of generated code" % (i, t["macro"]),
                             "failing_input": None,
                             "rendered": "%s:%d: %s!(.. %s ..) introduces the name `%s` into generated code" % (t["file"], t["line"], t["macro"], i, i)})
    return viol, {"kind": "exhaustive enumeration (not a verifier proof)", "templates": n_templates, "literal_identifiers": n_idents,
                  "distinct_identifiers": sorted(seen), "alphabet": sorted(ALPHABET), "exhaustive": True}


def run(prop, tier):
    if prop == "C20":
        v, rep = c20_alphabet()
        return {"violations": v, "report": {"template_alphabet": rep}}
    return {"violations": [], "report": {}}
