"""Checks that are not verifier proofs: exhaustive enumerations of finite sets read from the real source.
Reported separately in the evidence (DESIGN section 4, C20)."""
import assemble as A

KEYWORDS = {"impl", "for", "fn", "let", "mut", "match", "type", "where", "as", "self", "_"}
LIB_PATHS = {"core", "convert", "result", "Result", "From", "TryFrom", "Into", "TryInto", "o2o", "traits", "IntoExisting",
             "TryIntoExisting", "Default", "default", "Ok", "Error"}
METHODS = {"from", "try_from", "into", "try_into", "into_existing", "try_into_existing"}
BINDERS = {"value", "other", "obj"}
ALPHABET = KEYWORDS | LIB_PATHS | METHODS | BINDERS
FORMAT_IDENT_PATTERNS = {'"f{}"'}


def c20_alphabet():
    """every literal identifier of every quote!/parse_quote!/format_ident! template in o2o-impl/src belongs to the fixed alphabet
    (keywords, ::core::convert / ::core::result::Result / o2o::traits paths, Default::default, Ok, the six method names,
    the binders value/self/other/obj).  Anything else - in particular `std` or `alloc` - is a violation."""
    d = A.all_items()
    viol = []
    n_templates = 0
    n_idents = 0
    seen = set()
    for t in d["templates"]:
        n_templates += 1
        if t["macro"] == "format_ident":
            for l in t["lits"]:
                if l not in FORMAT_IDENT_PATTERNS:
                    viol.append({"obligation": "template-alphabet@%s:%d" % (t["file"], t["line"]), "props": ["C20"],
                                 "message": "format_ident! pattern %s is not one of %s" % (l, sorted(FORMAT_IDENT_PATTERNS)),
                                 "failing_input": None, "rendered": "%s:%d %s!(.. %s ..)" % (t["file"], t["line"], t["macro"], l)})
            continue
        for i in t["idents"]:
            n_idents += 1
            seen.add(i)
            if i not in ALPHABET:
                viol.append({"obligation": "template-alphabet@%s:%d" % (t["file"], t["line"]), "props": ["C20"],
                             "message": "identifier `%s` in a %s! template is not in the alphabet of generated code" % (i, t["macro"]),
                             "failing_input": None,
                             "rendered": "%s:%d: %s!(.. %s ..) introduces the name `%s` into generated code" % (t["file"], t["line"], t["macro"], i, i)})
    return viol, {"kind": "exhaustive enumeration (not a verifier proof)", "templates": n_templates, "literal_identifiers": n_idents,
                  "distinct_identifiers": sorted(seen), "alphabet": sorted(ALPHABET), "exhaustive": True}


def _replay_dirs():
    """(crate dir, target dir).  /repo -> the committed replay crate; a scratch tree named by O2O_REPO (development: seeded changes
    tried without touching /repo) -> a copy of the crate pointing at that tree, with its own target directory"""
    import hashlib
    import os
    import shutil
    verif = os.path.dirname(os.path.dirname(os.path.abspath(__file__)))
    repo = os.path.abspath(os.environ.get("O2O_REPO", "/repo"))
    if repo == "/repo":
        return os.path.join(verif, "replay"), os.path.join(verif, "build", "replay-target")
    h = hashlib.sha1(repo.encode()).hexdigest()[:10]
    crate = os.path.join(verif, "build", "replay-scratch-" + h)
    shutil.copytree(os.path.join(verif, "replay"), crate, dirs_exist_ok=True)
    ct = os.path.join(crate, "Cargo.toml")
    txt = open(os.path.join(verif, "replay", "Cargo.toml")).read().replace('"/repo/o2o-impl"', '"%s/o2o-impl"' % repo)
    open(ct, "w").write(txt)
    return crate, os.path.join(verif, "build", "replay-target-" + h)


def _exe(name):
    import os
    return os.path.join(_replay_dirs()[1], "release", name)


def replay_inputs(paths):
    """run the real o2o_impl::expand::derive (built from /repo's working tree) on each input file; one record per file"""
    import json
    import os
    import subprocess
    verif = os.path.dirname(os.path.dirname(os.path.abspath(__file__)))
    crate, target = _replay_dirs()
    env = dict(os.environ, CARGO_NET_OFFLINE="true", CARGO_TARGET_DIR=target)
    try:
        import shutil
        shutil.copy(os.path.join(os.environ.get("O2O_REPO", "/repo"), "Cargo.lock"), os.path.join(crate, "Cargo.lock"))
    except Exception:
        pass
    b = subprocess.run(["cargo", "build", "--release", "--offline"], cwd=crate, env=env, capture_output=True, text=True)
    exe = os.path.join(target, "release", "o2o-replay")
    if b.returncode != 0 or not os.path.exists(exe):
        return None, "replay crate does not build: " + b.stderr[-400:]
    p = subprocess.run([exe] + paths, capture_output=True, text=True, timeout=120)
    recs = []
    for l in p.stdout.split("\n"):
        l = l.strip()
        if l.startswith("{"):
            recs.append(json.loads(l))
    return recs, None


def c16_ledger():
    """C16 ledger inputs (findings/inputs/c16_*.rs): accepted-looking inputs aimed at the preconditions that only validation is
    supposed to establish.  TESTING, not proof: each is expanded natively; a panic is a violation of C16 with that input."""
    import glob
    import os
    verif = os.path.dirname(os.path.dirname(os.path.abspath(__file__)))
    paths = sorted(glob.glob(os.path.join(verif, "findings", "inputs", "c16_*.rs")))
    recs, err = replay_inputs(paths)
    if recs is None:
        return [], {"kind": "native replay (testing, not proof)", "skipped": err}
    viol = []
    for r in recs:
        if r["outcome"] == "panic":
            name = os.path.basename(r["file"])
            viol.append({"obligation": "no-panic@" + name, "fn": None, "props": ["C16"],
                         "message": "the derive panicked on an input it does not reject: " + r["text"][:200],
                         "failing_input": {"engine": "native replay of the real o2o_impl::expand::derive", "input_file": "findings/inputs/" + name,
                                           "input": open(r["file"]).read(), "outcome": r["outcome"], "panic_message": r["text"]},
                         "rendered": r["text"], "where": [], "unit": "replay"})
    return viol, {"kind": "native replay (testing, not proof)", "inputs": len(paths), "outcomes": {os.path.basename(r["file"]): r["outcome"] for r in recs}}


def c16_mutants():
    """C16 stand-in (TESTING): every single-edit mutant (token runs deleted inside attributes, attributes deleted, instruction names
    swapped) of 24 hand-written inputs and of every recorded input is expanded; a panic is a violation with that input - unless the
    input is listed in findings/c16_mutant_baseline.json (inputs that panic on the tree the baseline was recorded on: known findings,
    each identified by its exact text; the file is written by `bin/snapshot --mutants`, never at check time)."""
    import glob
    import hashlib
    import json
    import os
    import subprocess
    verif = os.path.dirname(os.path.dirname(os.path.abspath(__file__)))
    recs, err = replay_inputs([])
    exe = _exe("mutants")
    if recs is None or not os.path.exists(exe):
        return [], {"kind": "native mutation corpus (testing, not proof)", "skipped": err or "binary missing"}, []
    paths = sorted(glob.glob(os.path.join(verif, "findings", "inputs", "*.rs")))
    p = subprocess.run([exe] + paths, capture_output=True, text=True, timeout=900)
    lines = p.stdout.strip().split("\n")
    head = json.loads(lines[0]) if lines and lines[0].startswith("{") else {"cases": 0, "failures": -1}
    if head["failures"] < 0 or head["cases"] == 0:
        return [], {"kind": "native mutation corpus (testing, not proof)", "skipped": "no report (crashed?)"}, []
    try:
        base = json.load(open(os.path.join(verif, "findings", "c16_mutant_baseline.json")))["inputs"]
    except Exception:
        base = {}
    viol, known_by_msg = [], {}
    for l in lines[1:]:
        if not l.startswith("PANIC\t"):
            continue
        _, text, msg = (l.split("\t") + ["", ""])[:3]
        if text in base:
            known_by_msg[msg] = known_by_msg.get(msg, 0) + 1
            continue
        if len(viol) < 5:
            h = hashlib.sha1(text.encode()).hexdigest()[:10]
            viol.append({"obligation": "no-panic@mutant:" + h, "fn": None, "props": ["C16"],
                         "message": "the derive panicked on an input it does not reject: " + msg[:160],
                         "failing_input": {"engine": "native replay of the real o2o_impl::expand::derive", "input": text, "panic_message": msg},
                         "rendered": msg, "where": [], "unit": "replay"})
    known_lines = ["%d recorded single-edit mutant inputs still panic with `%s` (findings/c16_mutant_baseline.json lists each input)" % (n, m) for m, n in sorted(known_by_msg.items())]
    rep = {"kind": "native mutation corpus (testing, not proof)", "seeds": head.get("seeds"), "inputs": head["cases"], "panics": head["failures"],
           "panics_listed_in_baseline": sum(known_by_msg.values()), "new_panics": head["failures"] - sum(known_by_msg.values()),
           "bound": "24 hand-written inputs + every recorded input; all mutants with one run of 1..3 token trees deleted inside an attribute (any depth), one attribute deleted, one instruction name replaced by another of the 24, one literal replaced by a literal of another shape, or one argument identifier replaced by an integer literal"}
    return viol, rep, known_lines


def c17_ledger():
    """every recorded input (findings/inputs/*.rs) that the derive accepts must expand to a sequence of Rust items.
    TESTING, not proof; one obligation per input, so a known finding names exactly one input."""
    import glob
    import os
    verif = os.path.dirname(os.path.dirname(os.path.abspath(__file__)))
    paths = sorted(glob.glob(os.path.join(verif, "findings", "inputs", "*.rs")))
    recs, err = replay_inputs(paths)
    if recs is None:
        return [], {"kind": "native replay (testing, not proof)", "skipped": err}
    viol = []
    for r in recs:
        if r["outcome"] == "ok" and not r["items_parse"]:
            name = os.path.basename(r["file"])
            viol.append({"obligation": "well-formed@" + name, "fn": None, "props": ["C17"],
                         "message": "the derive accepts this input and emits tokens that are not a sequence of Rust items",
                         "failing_input": {"engine": "native replay of the real o2o_impl::expand::derive", "input_file": "findings/inputs/" + name,
                                           "input": open(r["file"]).read(), "expansion": r["text"][:3000]},
                         "rendered": r["text"][:3000], "where": [], "unit": "replay"})
    return viol, {"kind": "native replay (testing, not proof)", "inputs": len(paths), "accepted": sum(1 for r in recs if r["outcome"] == "ok"),
                  "accepted_and_well_formed": sum(1 for r in recs if r["outcome"] == "ok" and r["items_parse"])}


def c10_walk_conformance():
    """BOUNDED conformance test (not proof) of the assumed contract `walk` = replace_tilde_or_at_in_expr, on the real code:
    all token trees over {~ @ a 1 +} with <= 2 tokens per level and groups () [] {} nested to depth 2, plus hand-written cases."""
    import os
    import subprocess
    verif = os.path.dirname(os.path.dirname(os.path.abspath(__file__)))
    recs, err = replay_inputs([])   # builds the replay crate (both binaries) from the current tree
    exe = _exe("walk_conformance")
    if recs is None or not os.path.exists(exe):
        return [], {"kind": "bounded conformance test of an assumed contract", "skipped": err or "binary missing"}
    p = subprocess.run([exe], capture_output=True, text=True, timeout=600)
    lines = p.stdout.strip().split("\n")
    import json
    head = json.loads(lines[0]) if lines and lines[0].startswith("{") else {"cases": 0, "failures": -1}
    viol = []
    fails = [l.split("\t") for l in lines[1:] if l.startswith("FAIL\t")]
    if head["failures"] < 0 or head["cases"] == 0:
        return [], {"kind": "bounded conformance test of an assumed contract", "skipped": "the stand-in produced no report (crashed?): " + (p.stderr or "")[-300:]}
    if head["failures"] != 0:
        ex = fails[0] if fails else ["", "?", "?", "?"]
        viol.append({"obligation": "replace_tilde_or_at_in_expr.assumed-contract[walk]", "fn": "replace_tilde_or_at_in_expr", "props": ["C10"],
                     "message": "the real token walk disagrees with its assumed contract on %d of %d enumerated expressions" % (head["failures"], head["cases"]),
                     "failing_input": {"engine": "native replay of the real derive", "expression": ex[1], "derive_input": "#[from_owned(B)] struct A { #[from({ %s })] x: i32 }" % ex[1],
                                       "expected": ex[2], "got": ex[3], "more": [f[1] for f in fails[1:10]]},
                     "rendered": "\n".join(lines[:11]), "where": [], "unit": "replay"})
    return viol, {"kind": "bounded conformance test of the assumed contract `walk` (testing, not proof)", "cases": head["cases"], "failures": head["failures"],
                  "bound": "token trees over {~ @ a 1 +}, <= 2 tokens per level, groups () [] {} nested to depth 2, all adjacent pairs; 22 hand-written expressions", "exhaustive_within_bound": True}


META = {
    "c13": ("get_data_type_attrs / get_member_attrs (attribute front-ends)", "an instruction written #[i(a)], #[o2o(i(a))] or grouped in one #[o2o(..)] list gives the same expansion / the same diagnostics",
            "24 trait instructions + ghosts/where_clause/child_parents x 11 companions x {separate, grouped, both orders}; 19 member instructions x 5 type heads x {bare, wrapped, pairs grouped}; 8 variant instructions x 3 heads"),
    "c12": ("end to end (front-end, validate, block builders included)", "a shortcut instruction gives the same impl items as the basic instructions it abbreviates, at type and member level",
            "12 shortcuts x 4 type shapes; x 4 member argument forms x 2 heads; the 6 infallible shortcuts in front of a child field inside #[parent(..)] x 3 argument forms x 2 heads; ghost / ghosts"),
    "c06": ("end to end (struct_init_block call sites included)", "every impl item of the input projected to counterpart A occurs unchanged in the joint expansion",
            "two counterparts A and B on a generic struct (A and B both converting both ways, or A only receiving and B only giving): field 0 with one of 9 instruction forms dedicated to A x 9 dedicated to B x with / without a default instruction, field 1 with one of 5 forms per side (rename, bare parent, parameterised parent, ghost_ref), 5 settings of dedicated / default ghosts, where_clause and child_parents; projected to A and to B: 52,650 pairs; a joint input that is rejected although every projection is accepted is a violation; plus 8 hand-written pairs (enum ghosts, literal / pattern, type_hint, ghosts with child path)"),
    "c05": ("the call sites of the lookups in expand.rs (render_struct_line, render_enum_line, variant_destruct_block, struct_init_block_inner): which kind, fallibility and counterpart they pass",
            "adding a member instruction that is shadowed (a later step of the chain, or a default one next to a dedicated one) or not applicable (other kind, other ownership ghost) never changes the impl, written before or after the one that takes effect",
            "12 conversions x 3 member contexts (named struct field, enum variant field, tuple struct field) x every member instruction that can serve the conversion (21 names x default / dedicated) as the one in effect x every other of the 21 names (default and dedicated) that is shadowed or inapplicable, plus ghosts of the other ownership, before and after: 28,992 pairs"),
    "c14": ("get_data_type_attrs / Field::multiple_from_syn / Variant::multiple_from_syn (repeat state threaded through closures)",
            "an input using repeat / skip_repeat / stop_repeat expands exactly like the same input with the repetition written out",
            "all valid placements of {none, own instruction, repeat, skip_repeat, stop_repeat, stop_repeat+repeat} over 5 struct fields x 5 carried instruction sets x 5 category filters; over 4 enum-variant fields x 4 variant shapes x permeating or not x 3 filters; over 4 variants x 4 filters x a field-level repeat block (permeating or not) opened inside any one of the variants; over 4 trait instructions of one name (plus one of another name) x 4 setups x 5 parameter filters"),
}
STRUCT = {
    "c03": ("struct_init_block / struct_init_block_inner (grouping, sort, recursive descent) with everything below them",
            "every intermediate struct of the child / parent tree is built exactly once and receives all and only its own members; into_existing and post-init bodies assign each field once through its path",
            "8 nesting trees (depth <= 4, branching <= 2, sibling sub-trees sharing a textual prefix) x ALL permutations of the flat struct's fields (<= 6 fields) x {plain, struct-level ghosts addressed by child path incl. a ghost-only node, a bare #[parent] member} x 6 impls; the same trees as parameterised #[parent(..)] lists in 24 entry orders"),
    "c11": ("get_quote_trait_params (assumed callee of the quote_*_trait contracts: `for` loop over a collection, parse_quote!)",
            "the deriving type's parameters are declared once on the impl (bounds kept, no defaults) and applied in argument form; counterpart-only lifetimes are declared; the dedicated-else-default where_clause is attached; by-reference impls over lifetimes get `&'o2o` with 'o2o outliving exactly the borrowed result's lifetimes",
            "11 parameter lists (lifetimes, bounded / defaulted / const parameters) x 8 counterpart paths (generic, lifetime, foreign and repeated lifetime arguments) x 12 conversion kinds x 4 where_clause settings"),
    "c01": ("struct_init_block / struct_init_block_inner: which members are rendered, skipped, and how the body is delimited",
            "From: every own field receives exactly its designated counterpart value; Into / into_existing: exactly the designated counterpart fields are written, each once, ghosts skipped, bare parents poured once, struct-level ghosts added",
            "all member sequences of length 1..3 over 10 member forms (plain, renamed, expression, both, from/into pair, ghost, child, nested child + rename, `@`/`~` expressions, bare parent) x with / without struct-level ghosts: 2,220 structs x 6 impls, against an oracle written from the statement; plus all 256 tuple structs of 4 members over {plain, expression, ghost, bare parent} x {B, B as ()}: Into writes position k for the k-th rendered member, in the literal and in the `obj.k = ..` form; plus 4,116 three-member structs (tuple, and named onto `B as ()`) over 7 forms that designate a counterpart position (#[map(i)], #[map(i, e)], #[as_type(i, T)], #[from(i, e)] and the undesignated forms) x 6 index permutations: From reads `value.<designated position>`"),
    "c02": ("render_enum_line -> struct_init_block (payload constructor, an assumed callee) -> render_struct_line, enum_init_block(_inner), variant_destruct_block end to end",
            "every arm matches the (renamed) variant with the pattern that binds exactly the fields the other side has, and builds the variant with exactly the designated payload: same-named / renamed / expression / ghost default, running positions for tuple payloads",
            "enums with a named-payload, a tuple-payload and a unit variant; named payloads: all sequences of length 1..3 over 6 member forms; tuple payloads: sequences over 4 forms; with and without variant renames: 492 enums x 4 impls, whole fn bodies compared with an oracle written from the statement"),
    "c04": ("validate_struct_attrs (uniqueness per kind / fallibility / counterpart), get_data_type_attrs, data_type_impl end to end",
            "accepted input => the impl headers are exactly the documented ones for its instructions, pairwise distinct (a (kind, fallibility, counterpart) requested twice must not be accepted), `type Error` is the declared error type, and the set does not depend on the order of the instructions",
            "24 instructions x 6 counterpart forms (plain, qualified, generic, qualified + generic, bare tuple) x 3 error types x 3 item shapes singly; all 24 x 24 ordered pairs x {same counterpart, different counterparts, different generic arguments, same name in different modules} x both orders: 36,486 inputs against the README table re-typed in the test"),
    "c07": ("whole bodies (struct_init_block(_inner), struct_post_init, main_code_block) across the twelve impls of one input",
            "by-reference body = owned body with borrows; fallible body = Ok(..) of the infallible one with `?` on the poured parent; into_existing assigns to every field what into builds, and pours the same parents",
            "all member sequences of length 1..3 over 9 member forms (plain, renamed, expression, both, from/into pair, ghost, child, nested child, bare parent) x with / without struct-level ghosts = 1,638 structs, each with map + try_map + into_existing + try_into_existing (12 impls)"),
    "c17": ("every emitter, end to end",
            "the expansion is a sequence of impl items; each implements one of the six traits with exactly its one method, the documented signature, and `type Error` iff fallible",
            "the 1,638 structs of the c07 corpus x 4 instructions, plus tuple / unit / hinted / nameless-tuple structs and enums x 6 instructions x 5 counterpart forms: 6,716 inputs"),
    "c08": ("struct_init_block_inner (`..expr`, ghosts), main_code_block, quote_*_trait end to end",
            "vars are the first statements, once, in declaration order; `..expr` is the base of the literal after exactly the fields the member instructions provide; `return expr` is the whole body; attribute / impl_attribute / inner_attribute sit on the fn / the impl / inside the body of every impl the instruction produces",
            "24 instructions x 7 type shapes x {no vars, 2 vars} x 5 attribute sets x {none, ..expr, return expr} x 2 parameter orders"),
}


def structural(suite, prop):
    """BOUNDED structural stand-in (testing, not proof): the real derive's output parsed with syn and compared with the statement"""
    import json
    import os
    import subprocess
    verif = os.path.dirname(os.path.dirname(os.path.abspath(__file__)))
    recs, err = replay_inputs([])
    exe = _exe("structural")
    target, claim, bound = STRUCT[suite]
    if recs is None or not os.path.exists(exe):
        return [], {"kind": "bounded structural stand-in", "skipped": err or "binary missing"}
    p = subprocess.run([exe, suite], capture_output=True, text=True, timeout=3000)
    lines = p.stdout.strip().split("\n")
    head = json.loads(lines[0]) if lines and lines[0].startswith("{") else {"cases": 0, "failures": -1}
    fails = [l.split("\t") for l in lines[1:] if l.startswith("FAIL\t")]
    viol = []
    if head["failures"] < 0 or head["cases"] == 0:
        # a crash of the oracle (or an empty corpus) decides nothing: undecided, never a violation
        return [], {"kind": "bounded structural stand-in", "skipped": "the stand-in produced no report (crashed?): " + (p.stderr or "")[-300:]}
    if head["failures"] != 0:
        ex = fails[0] if fails else ["", "?", "?"]
        viol.append({"obligation": "structural[%s]" % suite, "fn": None, "props": [prop],
                     "message": "%d of %d enumerated inputs expand to something the statement excludes (%s)" % (head["failures"], head["cases"], target),
                     "failing_input": {"engine": "native replay of the real derive", "derive_input": ex[1], "what_is_wrong": ex[2][:1500], "more": [f[1] for f in fails[1:10]]},
                     "rendered": "\n".join(lines[:11])[:4000], "where": [], "unit": "replay"})
    import os as _os
    if _os.environ.get("STANDIN_TIER") == "thorough" and suite == "c03":
        bound += "; THOROUGH tier: 3 more trees (7 fields, depth 5, repeated segment names a / a.a / aa) with all 5,040 orders each"
    return viol, {"kind": "bounded structural stand-in (testing, not proof)", "covers": target, "claim": claim, "bound": bound, "cases": head["cases"], "failures": head["failures"]}


def metamorphic(suite, prop):
    """BOUNDED metamorphic stand-in (testing, not proof) on the real derive, for functions outside the verifier's reach"""
    import json
    import os
    import subprocess
    verif = os.path.dirname(os.path.dirname(os.path.abspath(__file__)))
    recs, err = replay_inputs([])
    exe = _exe("metamorphic")
    target, claim, bound = META[suite]
    if recs is None or not os.path.exists(exe):
        return [], {"kind": "bounded metamorphic stand-in", "skipped": err or "binary missing"}
    parts = ["c14_members", "c14_enum_fields", "c14_variants", "c14_traits"] if suite == "c14" else [suite]
    import concurrent.futures
    with concurrent.futures.ThreadPoolExecutor(max_workers=4) as ex_:
        outs = list(ex_.map(lambda s_: subprocess.run([exe, s_], capture_output=True, text=True, timeout=3000).stdout, parts))
    head = {"cases": 0, "failures": 0, "both_expand": 0}
    lines = []
    for o in outs:
        ls = o.strip().split("\n")
        h = json.loads(ls[0]) if ls and ls[0].startswith("{") else {"cases": 0, "failures": -1}
        if h["failures"] < 0:
            head["failures"] = -1
            break
        for k in ("cases", "failures", "both_expand"):
            head[k] += h.get(k, 0)
        lines += ls
    fails = [l.split("\t") for l in lines if l.startswith("FAIL\t")]
    viol = []
    if head["failures"] < 0 or head["cases"] == 0:
        return [], {"kind": "bounded metamorphic stand-in", "skipped": "the stand-in produced no report (crashed?)"}
    if head["failures"] != 0:
        ex = fails[0] if fails else ["", "?", "?", "?"]
        viol.append({"obligation": "metamorphic[%s]" % suite, "fn": None, "props": [prop],
                     "message": "%d of %d input pairs that must expand identically do not (%s)" % (head["failures"], head["cases"], target),
                     "failing_input": {"engine": "native replay of the real derive", "input_a": ex[1], "input_b": ex[2], "difference": ex[3][:1500], "more": [f[1] for f in fails[1:10]]},
                     "rendered": "\n".join(lines[:11])[:4000], "where": [], "unit": "replay"})
    import os as _os
    if _os.environ.get("STANDIN_TIER") == "thorough" and suite == "c14":
        bound += "; THOROUGH tier: 6 struct fields, 5 variants, 5 trait instructions"
    return viol, {"kind": "bounded metamorphic stand-in (testing, not proof)", "covers": target, "claim": claim, "bound": bound, "cases": head["cases"], "both_inputs_expand": head.get("both_expand"), "failures": head["failures"]}


def model_conformance():
    """the trusted token model (prelude/tokens.rs) against the real quote runtime: tests the trusted base, proves nothing"""
    import json
    import os
    import subprocess
    verif = os.path.dirname(os.path.dirname(os.path.abspath(__file__)))
    recs, err = replay_inputs([])
    exe = _exe("model_conformance")
    if recs is None or not os.path.exists(exe):
        return {"kind": "conformance test of the trusted token model", "skipped": err or "binary missing"}, None
    p = subprocess.run([exe], capture_output=True, text=True, timeout=120)
    lines = p.stdout.strip().split("\n")
    head = json.loads(lines[0]) if lines and lines[0].startswith("{") else {"cases": 0, "failures": -1}
    bad = None
    if head["failures"] < 0 or head["cases"] == 0:
        return {"kind": "conformance test of the trusted token model", "skipped": "no report (crashed?)"}, None
    if head["failures"] != 0:
        bad = "the token model of prelude/tokens.rs disagrees with the real quote runtime: " + "; ".join(lines[1:4])
    return {"kind": "conformance test of the trusted token model against the real quote runtime (testing)", "cases": head["cases"], "failures": head["failures"]}, bad


def run(prop, tier):
    import os
    os.environ["STANDIN_TIER"] = "thorough" if tier == "thorough" else "quick"   # read by the stand-in binaries: larger bounds
    r = _run(prop, tier)
    rep, bad = model_conformance()
    r.setdefault("report", {})["token_model_conformance"] = rep
    if bad:
        r["undecided"] = bad
    # a stand-in that could not run decides nothing: the check is undecided (exit 2), never silently green
    for k, v in r["report"].items():
        if isinstance(v, dict) and v.get("skipped"):
            r["undecided"] = "stand-in %s could not run: %s" % (k, str(v["skipped"])[:300])
    return r


def _run(prop, tier):
    if prop == "C04":
        v, rep = metamorphic("c13", prop)
        v2, rep2 = structural("c04", prop)
        return {"violations": v + v2, "report": {"front_end_spellings": rep, "documented_impl_sets": rep2}}
    if prop == "C13":
        v, rep = metamorphic("c13", prop)
        return {"violations": v, "report": {"front_end_spellings": rep}}
    if prop == "C12":
        v, rep = metamorphic("c12", prop)
        return {"violations": v, "report": {"shortcuts_end_to_end": rep}}
    if prop == "C06":
        v, rep = metamorphic("c06", prop)
        return {"violations": v, "report": {"projection_end_to_end": rep}}
    if prop == "C05":
        v, rep = metamorphic("c05", prop)
        return {"violations": v, "report": {"shadowed_and_inapplicable_instructions": rep}}
    if prop == "C14":
        v, rep = metamorphic("c14", prop)
        return {"violations": v, "report": {"repeat_written_out": rep}}
    if prop == "C03":
        v, rep = structural("c03", prop)
        return {"violations": v, "report": {"nesting_trees": rep}}
    if prop == "C02":
        v, rep = structural("c02", prop)
        return {"violations": v, "report": {"enum_arms_and_payloads": rep}}
    if prop == "C01":
        v, rep = structural("c01", prop)
        return {"violations": v, "report": {"designated_fields": rep}}
    if prop == "C07":
        v, rep = structural("c07", prop)
        return {"violations": v, "report": {"flavours_agree": rep}}
    if prop == "C17":
        v, rep = structural("c17", prop)
        v2, rep2 = c17_ledger()
        return {"violations": v + v2, "report": {"item_shapes": rep, "recorded_inputs_well_formed": rep2}}
    if prop == "C11":
        v, rep = structural("c11", prop)
        return {"violations": v, "report": {"impl_headers": rep}}
    if prop == "C08":
        v, rep = structural("c08", prop)
        return {"violations": v, "report": {"trait_params_structure": rep}}
    if prop == "C10":
        v, rep = c10_walk_conformance()
        return {"violations": v, "report": {"walk_conformance": rep}}
    if prop == "C16":
        v, rep = c16_ledger()
        v2, rep2, kl = c16_mutants()
        return {"violations": v + v2, "report": {"ledger_inputs": rep, "mutation_corpus": rep2}, "known_lines": kl}
    if prop == "C20":
        v, rep = c20_alphabet()
        return {"violations": v, "report": {"template_alphabet": rep}}
    return {"violations": [], "report": {}}
