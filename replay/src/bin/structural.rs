// Bounded structural stand-ins (TESTING, not proof) for functions outside the verifier's reach, run on the real derive.
// The expansion is parsed with syn and compared with what the property statement says about its structure.
//   c08  trait-instruction params: vars first / once / in order, `..expr` last in the literal with exactly the provided
//        fields, `return expr` replaces the body, attribute / impl_attribute / inner_attribute placement, on every impl
//   c03  flattened structs: every intermediate struct of the child / parent tree is built exactly once and receives all
//        and only its own members, for every permutation of the flat struct's fields
// usage: structural <suite>      prints {"suite":..,"cases":N,"failures":M} and up to 10 FAIL lines
use quote::ToTokens;
use std::collections::BTreeMap;
use std::panic;

fn expand(src: &str) -> Result<String, String> {
    let node: syn::DeriveInput = match syn::parse_str(src) {
        Ok(n) => n,
        Err(e) => return Err(format!("PARSE {}", e)),
    };
    match panic::catch_unwind(|| o2o_impl::expand::derive(&node)) {
        Ok(Ok(ts)) => Ok(ts.to_string()),
        Ok(Err(e)) => Err(format!("ERR {}", e.into_iter().map(|x| x.to_string()).collect::<Vec<_>>().join(" || "))),
        Err(_) => Err("PANIC".into()),
    }
}

struct Rep { cases: usize, fails: Vec<(String, String)> }
impl Rep {
    fn fail(&mut self, src: &str, why: String) { self.fails.push((src.replace('\n', " "), why)); }
}

fn ts<T: ToTokens>(t: &T) -> String { t.to_token_stream().to_string() }

struct Impl { head: String, impl_attrs: Vec<String>, fn_outer: Vec<String>, fn_inner: Vec<String>, stmts: Vec<syn::Stmt>, method: String }

fn impls(out: &str) -> Result<Vec<Impl>, String> {
    let f: syn::File = syn::parse_str(out).map_err(|e| format!("the expansion is not a sequence of Rust items: {}", e))?;
    let mut v = vec![];
    for it in f.items {
        let i = match it { syn::Item::Impl(i) => i, o => return Err(format!("not an impl: {}", ts(&o))) };
        let mut ms = i.items.iter().filter_map(|x| if let syn::ImplItem::Method(m) = x { Some(m) } else { None });
        let m = ms.next().ok_or("impl without fn")?;
        if ms.next().is_some() { return Err("impl with two fns".into()); }
        let head = format!("{} for {}", i.trait_.as_ref().map(|t| ts(&t.1)).unwrap_or_default(), ts(&i.self_ty));
        v.push(Impl {
            head, impl_attrs: i.attrs.iter().map(ts).collect(),
            fn_outer: m.attrs.iter().filter(|a| matches!(a.style, syn::AttrStyle::Outer)).map(ts).collect(),
            fn_inner: m.attrs.iter().filter(|a| matches!(a.style, syn::AttrStyle::Inner(_))).map(ts).collect(),
            stmts: m.block.stmts.clone(), method: m.sig.ident.to_string(),
        });
    }
    Ok(v)
}

// the struct literal a body ends with (through Ok(..)), if any
fn tail_struct(stmts: &[syn::Stmt]) -> Option<syn::ExprStruct> {
    let e = match stmts.last()? { syn::Stmt::Expr(e) => e.clone(), _ => return None };
    let e = match e {
        syn::Expr::Call(c) if ts(&c.func) == "Ok" && c.args.len() == 1 => c.args[0].clone(),
        e => e,
    };
    if let syn::Expr::Struct(s) = e { Some(s) } else { None }
}

fn multiplicity(name: &str) -> usize {
    let n = name.replace("try_", "");
    match n.as_str() { "map" => 4, "from" | "into" | "map_owned" | "map_ref" | "into_existing" => 2, _ => 1 }
}

fn c08(r: &mut Rep) {
    let names = ["owned_into", "ref_into", "into", "from_owned", "from_ref", "from", "map_owned", "map_ref", "map", "owned_into_existing", "ref_into_existing", "into_existing",
        "owned_try_into", "ref_try_into", "try_into", "try_from_owned", "try_from_ref", "try_from", "try_map_owned", "try_map_ref", "try_map", "owned_try_into_existing", "ref_try_into_existing", "try_into_existing"];
    // (prefix attributes, item, fields of the From literal, fields of the Into literal, is enum)
    let bodies: [(&str, &str, &[&str], &[&str], bool); 7] = [
        ("", "struct A { x: i32, #[parent] p: P }", &[], &[], false),
        ("", "struct A { x: i32, #[ghost({7})] y: i32 }", &["x", "y"], &["x"], false),
        ("#[ghosts(g: {1})]\n", "struct A { x: i32, #[ghost({7})] y: i32 }", &["x", "y"], &["x", "g"], false),
        ("#[ghosts(g: {1}, h: {2})]\n", "struct A { #[map(z)] x: i32, w: u8 }", &["x", "w"], &["z", "w", "g", "h"], false),
        ("#[child_parents(c: C)]\n", "struct A { x: i32, #[child(c)] z: i32 }", &["x", "z"], &["x", "c"], false),
        ("", "struct A(i32, #[ghost({7})] i32);", &[], &[], false),
        ("", "enum A { V, W(i32) }", &[], &[], true),
    ];
    let vars_opts = ["", "vars(v1: {1}, v2: {v1 + 1})"];
    let attr_opts: [&[&str]; 5] = [&[], &["attribute(inline)"], &["impl_attribute(cfg(any()))"], &["inner_attribute(allow(x))"], &["attribute(inline)", "impl_attribute(cfg(any()))", "inner_attribute(allow(x))"]];
    for name in names {
        let fall = name.contains("try");
        let existing = name.contains("existing");
        for (pre, body, from_fields, into_fields, is_enum) in bodies {
            let tuple = body.starts_with("struct A(") || body.contains("#[parent]");   // no `..expr` for these
            for vars in vars_opts {
                for attrs in attr_opts {
                    for term in ["", "update", "return"] {
                        if term == "update" && (is_enum || tuple || existing) { continue; }
                        // into_existing on an enum has no documented meaning (recorded under C17, DESIGN section 6)
                        if is_enum && existing { continue; }
                        for order in 0..2 {
                            let mut ps: Vec<String> = vec![];
                            if !vars.is_empty() { ps.push(vars.to_string()); }
                            for a in attrs { ps.push(a.to_string()); }
                            if order == 1 { if ps.len() < 2 { continue; } ps.reverse(); }
                            match term { "update" => ps.push("..Default::default()".into()), "return" => ps.push("return todo!()".into()), _ => {} }
                            let src = format!("{}#[{}(B{}{})]\n{}", pre, name, if fall { ", E" } else { "" }, if ps.is_empty() { String::new() } else { format!("| {}", ps.join(", ")) }, body);
                            r.cases += 1;
                            let out = match expand(&src) { Ok(o) => o, Err(e) => { r.fail(&src, format!("does not expand: {}", e)); continue; } };
                            let is = match impls(&out) { Ok(i) => i, Err(e) => { r.fail(&src, e); continue; } };
                            if is.len() != multiplicity(name) { r.fail(&src, format!("{} impls, the instruction produces {}", is.len(), multiplicity(name))); continue; }
                            for i in &is {
                                let want = |p: &str| attrs.iter().filter(|a| a.starts_with(p)).map(|a| a[p.len()..a.len() - 1].to_string()).collect::<Vec<_>>();
                                let norm = |v: &Vec<String>| v.iter().map(|s| s.replace(' ', "")).collect::<Vec<_>>();
                                let wi: Vec<String> = want("impl_attribute(").iter().map(|a| format!("#[{}]", a)).collect();
                                let wo: Vec<String> = want("attribute(").iter().map(|a| format!("#[{}]", a)).collect();
                                let wn: Vec<String> = want("inner_attribute(").iter().map(|a| format!("#![{}]", a)).collect();
                                if norm(&i.impl_attrs) != wi { r.fail(&src, format!("[{}] attributes on the impl: {:?}, expected {:?}", i.head, i.impl_attrs, wi)); break; }
                                if norm(&i.fn_outer) != wo { r.fail(&src, format!("[{}] attributes on the fn: {:?}, expected {:?}", i.head, i.fn_outer, wo)); break; }
                                if norm(&i.fn_inner) != wn { r.fail(&src, format!("[{}] inner attributes of the fn body: {:?}, expected {:?}", i.head, i.fn_inner, wn)); break; }
                                // vars: the first statements, once, in declaration order
                                let lets: Vec<String> = i.stmts.iter().filter_map(|s| if let syn::Stmt::Local(l) = s { Some(ts(l)) } else { None }).filter(|l| l.starts_with("let v1 ") || l.starts_with("let v2 ")).collect();
                                let wl: Vec<String> = if vars.is_empty() { vec![] } else { vec!["let v1 = 1 ;".into(), "let v2 = v1 + 1 ;".into()] };
                                if lets != wl { r.fail(&src, format!("[{}] vars bindings {:?}, expected {:?}", i.head, lets, wl)); break; }
                                let first: Vec<String> = i.stmts.iter().take(wl.len()).map(ts).collect();
                                if first != wl { r.fail(&src, format!("[{}] vars are not the first statements: {:?}", i.head, first)); break; }
                                let rest: Vec<String> = i.stmts.iter().skip(wl.len()).map(ts).collect();
                                if term == "return" {
                                    let joined = rest.join(" ");
                                    let ok = if existing { joined == "* other = todo ! () ;" || joined == "* other = todo ! () ; Ok (())" } else { joined == "todo ! ()" };
                                    if !ok { r.fail(&src, format!("[{}] `return expr` does not replace the body: {}", i.head, joined)); break; }
                                }
                                if term == "update" {
                                    let s = match tail_struct(&i.stmts) { Some(s) => s, None => { r.fail(&src, format!("[{}] no struct literal at the end of the body: {}", i.head, rest.join(" "))); break; } };
                                    if s.rest.as_ref().map(|e| ts(e)) != Some("Default :: default ()".into()) { r.fail(&src, format!("[{}] `..expr` is not the base of the literal: {}", i.head, ts(&s))); break; }
                                    let mut got: Vec<String> = s.fields.iter().map(|f| ts(&f.member)).collect();
                                    let mut exp: Vec<String> = (if i.method.contains("from") { from_fields } else { into_fields }).iter().map(|x| x.to_string()).collect();
                                    got.sort(); exp.sort();
                                    if got != exp { r.fail(&src, format!("[{}] fields written before `..expr`: {:?}, the member instructions provide {:?}", i.head, got, exp)); break; }
                                }
                            }
                        }
                    }
                }
            }
        }
    }
}

// ---------------------------------------------------------------- c03: nesting trees
// a tree node: named struct with own leaf members and child nodes
#[derive(Clone, Debug)]
struct Node { field: String, ty: String, leaves: Vec<String>, kids: Vec<Node> }

fn trees() -> Vec<Vec<Node>> {
    let n = |f: &str, t: &str, l: &[&str], k: Vec<Node>| Node { field: f.into(), ty: t.into(), leaves: l.iter().map(|x| x.to_string()).collect(), kids: k };
    let mut v = vec![
        vec![n("a", "TA", &["a1", "a2"], vec![])],
        vec![n("a", "TA", &["a1"], vec![]), n("b", "TB", &["b1"], vec![])],
        vec![n("a", "TA", &["a1"], vec![n("b", "TB", &["b1", "b2"], vec![])])],
        vec![n("a", "TA", &["a1"], vec![n("b", "TB", &["b1"], vec![]), n("c", "TC", &["c1"], vec![])])],
        vec![n("a", "TA", &["a1"], vec![n("b", "TB", &["b1"], vec![n("c", "TC", &["c1"], vec![])])])],
        vec![n("a", "TA", &[], vec![n("b", "TB", &["b1"], vec![])]), n("ab", "TAB", &["ab1"], vec![])],
        vec![n("a", "TA", &["a1"], vec![n("b", "TB", &[], vec![n("c", "TC", &["c1"], vec![n("d", "TD", &["d1"], vec![])])])])],
        vec![n("a", "TA", &["a1"], vec![n("b", "TB", &["b1"], vec![])]), n("c", "TC", &["c1"], vec![n("b", "TB2", &["cb1"], vec![])])],
    ];
    if !thorough() { return v; }
    // thorough tier: wider and deeper trees (7 fields: all 5,040 orders each)
    v.push(vec![n("a", "TA", &["a1", "a2"], vec![n("b", "TB", &["b1", "b2"], vec![n("c", "TC", &["c1"], vec![])])]), n("ab", "TAB", &["ab1"], vec![])]);
    v.push(vec![n("a", "TA", &["a1"], vec![n("b", "TB", &["b1"], vec![]), n("c", "TC", &["c1"], vec![n("d", "TD", &["d1"], vec![n("e", "TE", &["e1"], vec![])])])]), n("y", "TY", &["y1"], vec![])]);
    v.push(vec![n("a", "TA", &[], vec![n("a", "TAA", &["aa1"], vec![n("a", "TAAA", &["aaa1"], vec![])])]), n("aa", "TAA2", &["x1", "x2"], vec![n("a", "TAA2A", &["y1"], vec![])])]);
    v
}
fn thorough() -> bool { std::env::var("STANDIN_TIER").map(|v| v == "thorough").unwrap_or(false) }

// (leaf field name, child path) for every leaf, depth-first in tree order; and (path, type) for every node
fn flatten(nodes: &[Node], prefix: &str, leaves: &mut Vec<(String, String)>, parents: &mut Vec<(String, String)>) {
    for n in nodes {
        let p = if prefix.is_empty() { n.field.clone() } else { format!("{}.{}", prefix, n.field) };
        parents.push((p.clone(), n.ty.clone()));
        for l in &n.leaves { leaves.push((l.clone(), p.clone())); }
        flatten(&n.kids, &p, leaves, parents);
    }
}

fn permutations(n: usize, cap: usize) -> Vec<Vec<usize>> {
    fn go(cur: &mut Vec<usize>, used: &mut Vec<bool>, out: &mut Vec<Vec<usize>>, cap: usize) {
        if out.len() >= cap { return; }
        if cur.len() == used.len() { out.push(cur.clone()); return; }
        for i in 0..used.len() { if !used[i] { used[i] = true; cur.push(i); go(cur, used, out, cap); cur.pop(); used[i] = false; } }
    }
    let mut out = vec![];
    go(&mut vec![], &mut vec![false; n], &mut out, cap);
    out
}

// the literal tree found in an expression: type name -> (member -> Leaf(expr) | nested literal)
#[derive(Debug, PartialEq, Clone)]
enum Lit { Leaf(String), Struct(String, BTreeMap<String, Lit>) }

fn lit_of(e: &syn::Expr) -> Result<Lit, String> {
    match e {
        syn::Expr::Struct(s) => {
            let mut m = BTreeMap::new();
            for f in &s.fields {
                if m.insert(ts(&f.member), lit_of(&f.expr)?).is_some() { return Err(format!("member `{}` written twice in `{}`", ts(&f.member), ts(&s.path))); }
            }
            Ok(Lit::Struct(ts(&s.path), m))
        }
        e => Ok(Lit::Leaf(ts(e).replace(' ', ""))),
    }
}

fn expected_into(top: &[(String, String)], nodes: &[Node], ty: &str, recv: &str) -> Lit {
    let mut m = BTreeMap::new();
    for (l, _) in top { m.insert(l.clone(), Lit::Leaf(format!("{}.{}", recv, l))); }
    fn node(n: &Node, recv: &str) -> Lit {
        let mut m = BTreeMap::new();
        for l in &n.leaves { m.insert(l.clone(), Lit::Leaf(format!("{}.{}", recv, l))); }
        for k in &n.kids { m.insert(k.field.clone(), node(k, recv)); }
        Lit::Struct(n.ty.clone(), m)
    }
    for n in nodes { m.insert(n.field.clone(), node(n, recv)); }
    Lit::Struct(ty.into(), m)
}

fn ghost_members(nodes: &[Node], prefix: &str, out: &mut Vec<(String, String)>) {
    for n in nodes {
        let p = if prefix.is_empty() { n.field.clone() } else { format!("{}.{}", prefix, n.field) };
        out.push((p.clone(), format!("g_{}", p.replace('.', "_"))));
        ghost_members(&n.kids, &p, out);
    }
}

fn add_ghosts(l: Lit, path: &str, ghosts: &[(String, String)]) -> Lit {
    match l {
        Lit::Struct(t, mut m) => {
            let keys: Vec<String> = m.keys().cloned().collect();
            for k in keys {
                let v = m.remove(&k).unwrap();
                let sub = if path.is_empty() { k.clone() } else { format!("{}.{}", path, k) };
                m.insert(k, add_ghosts(v, &sub, ghosts));
            }
            for (gp, gn) in ghosts { if gp == path { m.insert(gn.clone(), Lit::Leaf("1".into())); } }
            Lit::Struct(t, m)
        }
        l => l,
    }
}

fn c03(r: &mut Rep) {
    // variants: plain; struct-level ghosts addressed by child path (one per node, one at the top, one node that only a ghost names);
    // a bare #[parent] member (the Into body then assigns to `obj`)
    for variant in ["plain", "ghosts", "bare-parent"] {
        for tree in trees() {
            let (mut leaves, mut parents) = (vec![], vec![]);
            flatten(&tree, "", &mut leaves, &mut parents);
            let top = vec![("t1".to_string(), String::new())];
            let mut all: Vec<(String, String)> = top.clone();
            all.extend(leaves.clone());
            let mut ghosts: Vec<(String, String)> = vec![];
            let mut tree_g = tree.clone();
            if variant == "ghosts" {
                ghost_members(&tree, "", &mut ghosts);
                ghosts.push((String::new(), "g_top".into()));
                ghosts.push(("z".into(), "g_z".into()));
                parents.push(("z".into(), "TZ".into()));
                tree_g.push(Node { field: "z".into(), ty: "TZ".into(), leaves: vec![], kids: vec![] });
            }
            let cp = parents.iter().map(|(p, t)| format!("{}: {}", p, t)).collect::<Vec<_>>().join(", ");
            let gh = if ghosts.is_empty() { String::new() } else { format!("#[ghosts({})]\n", ghosts.iter().map(|(p, n)| if p.is_empty() { format!("{}: {{ 1 }}", n) } else { format!("{}@{}: {{ 1 }}", p, n) }).collect::<Vec<_>>().join(", ")) };
            let n_fields = all.len() + if variant == "bare-parent" { 1 } else { 0 };
            for perm in permutations(n_fields, if thorough() { 5040 } else { 720 }) {
                let fields = perm.iter().map(|&i| if i == all.len() { "#[parent] p: P".to_string() } else { let (l, p) = &all[i]; if p.is_empty() { format!("{}: i32", l) } else { format!("#[child({})] {}: i32", p, l) } }).collect::<Vec<_>>().join(", ");
                let src = format!("#[map(B)]\n#[into_existing(B)]\n#[child_parents({})]\n{}struct A {{ {} }}", cp, gh, fields);
                r.cases += 1;
                let out = match expand(&src) { Ok(o) => o, Err(e) => { r.fail(&src, format!("does not expand: {}", e)); continue; } };
                let is = match impls(&out) { Ok(i) => i, Err(e) => { r.fail(&src, e); continue; } };
                if is.len() != 6 { r.fail(&src, format!("{} impls instead of 6", is.len())); continue; }
                for i in &is {
                    let by_ref = i.head.contains("for & A") || i.head.contains("< & B >");
                    if i.method == "into" && variant != "bare-parent" {
                        let e = match i.stmts.last() { Some(syn::Stmt::Expr(e)) if i.stmts.len() == 1 => e, _ => { r.fail(&src, format!("[{}] body is not one expression", i.head)); break; } };
                        match lit_of(e) {
                            Err(m) => { r.fail(&src, format!("[{}] {}", i.head, m)); break; }
                            Ok(got) => {
                                let exp = add_ghosts(expected_into(&top, &tree_g, "B", "self"), "", &ghosts);
                                if got != exp { r.fail(&src, format!("[{}] built {:?}, the tree is {:?}", i.head, got, exp)); break; }
                            }
                        }
                    } else if i.method == "from" {
                        let e = match i.stmts.last() { Some(syn::Stmt::Expr(e)) if i.stmts.len() == 1 => e, _ => { r.fail(&src, format!("[{}] body is not one expression", i.head)); break; } };
                        let mut m = BTreeMap::new();
                        for (l, p) in &all { m.insert(l.clone(), Lit::Leaf(if p.is_empty() { format!("value.{}", l) } else { format!("value.{}.{}", p, l) })); }
                        if variant == "bare-parent" { m.insert("p".into(), Lit::Leaf(if by_ref { "value.into()".into() } else { "(&value).into()".into() })); }
                        match lit_of(e) {
                            Ok(got) if got == Lit::Struct("A".into(), m.clone()) => {}
                            o => { r.fail(&src, format!("[{}] built {:?}, expected every field read from its child path {:?}", i.head, o, m)); break; }
                        }
                    } else {
                        // into_existing, or into with a bare parent: one assignment `<dst>.<path>.<leaf> = self.<leaf>;` per field, the parent poured once, nothing else
                        let dst = if i.method == "into" { "obj" } else { "other" };
                        let mut got: Vec<String> = i.stmts.iter().map(|s| ts(s).replace(' ', "")).collect();
                        if i.method == "into" {
                            if got.first().map(|s| s.as_str()) != Some("letmutobj:B=Default::default();") || got.last().map(|s| s.as_str()) != Some("obj") { r.fail(&src, format!("[{}] body does not start from a default value and end with it: {:?}", i.head, got)); break; }
                            got.remove(0); got.pop();
                        }
                        let mut exp: Vec<String> = all.iter().map(|(l, p)| if p.is_empty() { format!("{}.{}=self.{};", dst, l, l) } else { format!("{}.{}.{}=self.{};", dst, p, l, l) }).collect();
                        for (gp, gn) in &ghosts { exp.push(if gp.is_empty() { format!("{}.{}=1;", dst, gn) } else { format!("{}.{}.{}=1;", dst, gp, gn) }); }
                        if variant == "bare-parent" {
                            let recv = if by_ref { "(&(self.p))" } else { "self.p" };
                            exp.push(format!("{}.into_existing({});", recv, if i.method == "into" { "&mutobj" } else { "other" }));
                        }
                        got.sort(); exp.sort();
                        if got != exp { r.fail(&src, format!("[{}] statements {:?}, expected {:?}", i.head, got, exp)); break; }
                    }
                }
            }
        }
    }
    c03_parents(r);
}

// parameterised #[parent(..)]: the nested structs of THIS side are rebuilt when converting from the flat counterpart
fn parent_attr(n: &Node, order: usize) -> String {
    let mut parts: Vec<String> = n.leaves.clone();
    for k in &n.kids { parts.push(format!("[{}] {}: {}", parent_attr(k, order), k.field, k.ty)); }
    let perms = permutations(parts.len(), 720);
    let pm = &perms[order % perms.len()];
    format!("parent({})", pm.iter().map(|&i| parts[i].clone()).collect::<Vec<_>>().join(", "))
}

// `#[parent(x)]` with one plain name means "bare parent dedicated to type x": give such nodes a second member
fn widen(n: &mut Node) {
    if n.leaves.len() == 1 && n.kids.is_empty() { let l = format!("{}_x", n.leaves[0]); n.leaves.push(l); }
    for k in n.kids.iter_mut() { widen(k); }
}

fn c03_parents(r: &mut Rep) {
    for mut tree in trees() {
        for n in tree.iter_mut() { widen(n); }
        // one parent member per top-level node of the tree
        for order in 0..24 {
            for top_first in [true, false] {
                let members: Vec<String> = tree.iter().map(|n| format!("#[{}] {}: {}", parent_attr(n, order), n.field, n.ty)).collect();
                let fields = if top_first { format!("t1: i32, {}", members.join(", ")) } else { format!("{}, t1: i32", members.join(", ")) };
                let src = format!("#[map(B)]\n#[into_existing(B)]\nstruct A {{ {} }}", fields);
                r.cases += 1;
                let out = match expand(&src) { Ok(o) => o, Err(e) => { r.fail(&src, format!("does not expand: {}", e)); continue; } };
                let is = match impls(&out) { Ok(i) => i, Err(e) => { r.fail(&src, e); continue; } };
                let (mut leaves, mut parents) = (vec![], vec![]);
                flatten(&tree, "", &mut leaves, &mut parents);
                for i in &is {
                    if i.method == "from" {
                        let e = match i.stmts.last() { Some(syn::Stmt::Expr(e)) if i.stmts.len() == 1 => e, _ => { r.fail(&src, format!("[{}] body is not one expression", i.head)); break; } };
                        // the tree of this side, every leaf read from the flat counterpart
                        let exp = expected_into(&[("t1".to_string(), String::new())], &tree, "A", "value");
                        fn flat(l: Lit) -> Lit { match l { Lit::Struct(t, m) => Lit::Struct(t, m.into_iter().map(|(k, v)| (k, flat(v))).collect()), Lit::Leaf(s) => Lit::Leaf(s) } }
                        match lit_of(e) {
                            Ok(got) if got == flat(exp.clone()) => {}
                            o => { r.fail(&src, format!("[{}] built {:?}, the tree is {:?}", i.head, o, exp)); break; }
                        }
                    } else {
                        let mut exp_pairs: Vec<(String, String)> = vec![("t1".into(), "self.t1".into())];
                        for (l, p) in &leaves { exp_pairs.push((l.clone(), format!("self.{}.{}", p, l))); }
                        if i.method == "into" {
                            let e = match i.stmts.last() { Some(syn::Stmt::Expr(e)) if i.stmts.len() == 1 => e, _ => { r.fail(&src, format!("[{}] body is not one expression", i.head)); break; } };
                            let exp = Lit::Struct("B".into(), exp_pairs.iter().map(|(l, v)| (l.clone(), Lit::Leaf(v.clone()))).collect());
                            match lit_of(e) { Ok(got) if got == exp => {} o => { r.fail(&src, format!("[{}] built {:?}, expected the flat counterpart {:?}", i.head, o, exp)); break; } }
                        } else {
                            let mut got: Vec<String> = i.stmts.iter().map(|s| ts(s).replace(' ', "")).collect();
                            let mut exp: Vec<String> = exp_pairs.iter().map(|(l, v)| format!("other.{}={};", l, v)).collect();
                            got.sort(); exp.sort();
                            if got != exp { r.fail(&src, format!("[{}] statements {:?}, expected {:?}", i.head, got, exp)); break; }
                        }
                    }
                }
            }
        }
    }
}


// ---------------------------------------------------------------- c11: impl headers
fn c11(r: &mut Rep) {
    // deriving type's parameter list: (declaration, argument form, lifetimes, [(name, bound tokens)] of the type/const params)
    let decls: [(&str, &str, &[&str], &[(&str, &str)]); 11] = [
        ("", "", &[], &[]),
        ("<'a>", "<'a>", &["'a"], &[]),
        ("<T>", "<T>", &[], &[("T", "")]),
        ("<T: Clone>", "<T>", &[], &[("T", "Clone")]),
        ("<'a, T>", "<'a, T>", &["'a"], &[("T", "")]),
        ("<'a, 'b, T: Clone + Default, U>", "<'a, 'b, T, U>", &["'a", "'b"], &[("T", "Clone + Default"), ("U", "")]),
        ("<const N: usize>", "<N>", &[], &[("N", "usize")]),
        ("<T = i32>", "<T>", &[], &[("T", "")]),
        ("<'a, T: 'a>", "<'a, T>", &["'a"], &[("T", "'a")]),
        ("<T, const N: usize = 3>", "<T, N>", &[], &[("T", ""), ("N", "usize")]),
        ("<'a, 'b: 'a>", "<'a, 'b>", &["'a", "'b"], &[]),
    ];
    let counterparts: [(&str, &[&str]); 8] = [("B<'c, 'c>", &["'c"]), ("B<'a, 'c, 'a, 'c>", &["'a", "'c"]), ("B", &[]), ("B<T>", &[]), ("B<'a>", &["'a"]), ("B<'c>", &["'c"]), ("B<'a, 'c, T>", &["'a", "'c"]), ("B<i32>", &[])];
    let kinds = ["owned_into", "ref_into", "from_owned", "from_ref", "owned_into_existing", "ref_into_existing",
        "owned_try_into", "ref_try_into", "try_from_owned", "try_from_ref", "owned_try_into_existing", "ref_try_into_existing"];
    // (attributes, expected predicates for counterpart B..)
    let wheres: [(&str, Option<&str>); 4] = [("", None), ("#[where_clause(T: Copy)]\n", Some("T : Copy")), ("#[where_clause(@CP@| T: Send)]\n", Some("T : Send")), ("#[where_clause(T: Copy)]\n#[where_clause(@CP@| T: Send)]\n", Some("T : Send"))];
    let sp = |s: &str| s.parse::<proc_macro2::TokenStream>().map(|t| t.to_string()).unwrap_or_default();
    for (decl, args, these_lts, tparams) in decls {
        for (cp, those_lts) in counterparts {
            for kind in kinds {
                for (wh, wexp) in wheres {
                    let fall = kind.contains("try");
                    let src = format!("{}#[{}({}{})]\nstruct A{} {{ x: i32 }}", wh.replace("@CP@", cp), kind, cp, if fall { ", E" } else { "" }, decl);
                    r.cases += 1;
                    let out = match expand(&src) { Ok(o) => o, Err(e) => { r.fail(&src, format!("does not expand: {}", e)); continue; } };
                    let f: syn::File = match syn::parse_str(&out) { Ok(f) => f, Err(e) => { r.fail(&src, format!("the expansion is not a sequence of Rust items: {} :: {}", e, out.chars().take(300).collect::<String>())); continue; } };
                    if f.items.len() != 1 { r.fail(&src, format!("{} items", f.items.len())); continue; }
                    let i = match &f.items[0] { syn::Item::Impl(i) => i, _ => { r.fail(&src, "not an impl".into()); continue; } };
                    let by_ref = kind.contains("ref");
                    let is_from = kind.contains("from");
                    // the lifetimes the fresh 'o2o has to outlive: those of the borrowed result
                    let relevant: Vec<&str> = if !by_ref { vec![] } else if is_from { these_lts.to_vec() } else { those_lts.to_vec() };
                    // declared parameters
                    let mut lts: Vec<(String, String)> = vec![];
                    let mut tps: Vec<(String, String)> = vec![];
                    let mut bad = None;
                    for p in &i.generics.params {
                        match p {
                            syn::GenericParam::Lifetime(l) => lts.push((ts(&l.lifetime), l.bounds.iter().map(ts).collect::<Vec<_>>().join(" + "))),
                            syn::GenericParam::Type(t) => { if t.default.is_some() { bad = Some(format!("default on impl parameter {}", t.ident)); } tps.push((t.ident.to_string(), t.bounds.iter().map(ts).collect::<Vec<_>>().join(" + "))); }
                            syn::GenericParam::Const(c) => { if c.default.is_some() { bad = Some(format!("default on impl parameter {}", c.ident)); } tps.push((c.ident.to_string(), ts(&c.ty))); }
                        }
                    }
                    if let Some(b) = bad { r.fail(&src, b); continue; }
                    let exp_tps: Vec<(String, String)> = tparams.iter().map(|(n, b)| (n.to_string(), sp(b))).collect();
                    if tps != exp_tps { r.fail(&src, format!("type/const parameters declared on the impl: {:?}, the deriving type has {:?}", tps, exp_tps)); continue; }
                    let mut exp_lts: Vec<String> = these_lts.iter().map(|s| s.to_string()).collect();
                    for l in those_lts.iter() { if !exp_lts.contains(&l.to_string()) { exp_lts.push(l.to_string()); } }
                    if !relevant.is_empty() { exp_lts.push("'o2o".into()); }
                    let mut got_lts: Vec<String> = lts.iter().map(|x| x.0.clone()).collect();
                    let mut e2 = exp_lts.clone();
                    got_lts.sort(); e2.sort();
                    if got_lts != e2 { r.fail(&src, format!("lifetimes declared on the impl: {:?}, expected {:?} (own, counterpart-only, 'o2o for a borrow tied to {:?})", got_lts, e2, relevant)); continue; }
                    if let Some((_, b)) = lts.iter().find(|x| x.0 == "'o2o") {
                        let mut g: Vec<String> = b.split(" + ").map(|x| x.to_string()).collect();
                        let mut e: Vec<String> = relevant.iter().map(|x| x.to_string()).collect();
                        g.sort(); e.sort(); g.dedup(); e.dedup();   // a repeated bound is harmless
                        if g != e { r.fail(&src, format!("'o2o outlives {:?}, expected {:?}", g, e)); continue; }
                    }
                    // the two types of the header
                    let tr = i.trait_.as_ref().map(|t| ts(&t.1)).unwrap_or_default();
                    let selfty = ts(&i.self_ty);
                    let own = format!("A {}", sp(args)).trim().to_string();
                    let other = sp(cp);
                    let amp = if !by_ref { String::new() } else if relevant.is_empty() { "& ".to_string() } else { "& 'o2o ".to_string() };
                    let (exp_self, exp_arg) = if is_from { (own.clone(), format!("{}{}", amp, other)) } else { (format!("{}{}", amp, own), other.clone()) };
                    let ns = |x: &str| x.replace(' ', "");
                    let (selfty, exp_self, tr, exp_arg) = (ns(&selfty), ns(&exp_self), ns(&tr), ns(&exp_arg));
                    if selfty != exp_self { r.fail(&src, format!("implemented for `{}`, expected `{}`", selfty, exp_self)); continue; }
                    if !tr.ends_with(&format!("<{}>", exp_arg)) { r.fail(&src, format!("trait `{}`, expected its argument to be `{}`", tr, exp_arg)); continue; }
                    let gw = i.generics.where_clause.as_ref().map(|w| w.predicates.iter().map(ts).collect::<Vec<_>>().join(" , "));
                    if gw.as_deref() != wexp { r.fail(&src, format!("where clause {:?}, expected {:?}", gw, wexp)); continue; }
                }
            }
        }
    }
}


// ---------------------------------------------------------------- shared corpus of flat / lightly nested structs and enums
// (attributes before the item, the item) ; counterpart is always B
fn member_templates(i: usize) -> Vec<String> {
    let x = format!("x{}", i);
    vec![
        format!("{}: i32", x),
        format!("#[map(y{})] {}: i32", i, x),
        format!("#[map(~.clone())] {}: i32", x),
        format!("#[map(y{}, ~.clone())] {}: i32", i, x),
        format!("#[from(~ + 1)] #[into(~ - 1)] {}: i32", x),
        format!("#[ghost({{ 7 }})] {}: i32", x),
        format!("#[child(c)] {}: i32", x),
        format!("#[child(c.d)] {}: i32", x),
        format!("#[parent] p{}: P", i),
    ]
}

fn struct_corpus() -> Vec<(String, String)> {
    let mut out = vec![];
    let t0 = member_templates(0);
    let t1 = member_templates(1);
    let t2 = member_templates(2);
    let mut bodies: Vec<String> = vec![];
    for a in &t0 { bodies.push(a.clone()); for b in &t1 { bodies.push(format!("{}, {}", a, b)); for c in &t2 { bodies.push(format!("{}, {}, {}", a, b, c)); } } }
    for b in bodies {
        let cp = if b.contains("#[child(") { "#[child_parents(c: C, c.d: D)]\n" } else { "" };
        for gh in ["", "#[ghosts(g: { 1 })]\n"] {
            out.push((format!("{}{}", cp, gh), format!("struct A {{ {} }}", b)));
        }
    }
    out
}

fn fn_body_tokens(i: &Impl) -> String { i.stmts.iter().map(ts).collect::<Vec<_>>().join(" ") }

// path -> expression of a body that either ends in a (nested) struct literal or assigns to `dst` field by field; plus the other statements
fn assignments(i: &Impl, dst: &str) -> Result<(BTreeMap<String, String>, Vec<String>), String> {
    let mut m = BTreeMap::new();
    let mut rest = vec![];
    fn flat(prefix: &str, l: &Lit, m: &mut BTreeMap<String, String>) {
        match l {
            Lit::Leaf(e) => { m.insert(prefix.to_string(), e.clone()); }
            Lit::Struct(_, fs) => for (k, v) in fs { flat(&if prefix.is_empty() { k.clone() } else { format!("{}.{}", prefix, k) }, v, m); }
        }
    }
    for st in &i.stmts {
        match st {
            syn::Stmt::Semi(syn::Expr::Assign(a), _) => {
                let l = ts(&a.left).replace(' ', "");
                if let Some(p) = l.strip_prefix(&format!("{}.", dst)) {
                    if m.insert(p.to_string(), ts(&a.right).replace(' ', "")).is_some() { return Err(format!("`{}` assigned twice", l)); }
                } else { rest.push(ts(st).replace(' ', "")); }
            }
            syn::Stmt::Expr(e) => {
                let inner = match e { syn::Expr::Call(c) if ts(&c.func) == "Ok" && c.args.len() == 1 => c.args[0].clone(), e => e.clone() };
                match lit_of(&inner)? { l @ Lit::Struct(..) => flat("", &l, &mut m), Lit::Leaf(x) => rest.push(x) }
            }
            st => rest.push(ts(st).replace(' ', "")),
        }
    }
    Ok((m, rest))
}

// C07: flavours of one mapping agree (metamorphic relations between the impls of one input, taken from the statement)
fn c07(r: &mut Rep) {
    for (pre, item) in struct_corpus() {
        let src = format!("{}#[map(B)]\n#[try_map(B, E)]\n#[into_existing(B)]\n#[try_into_existing(B, E)]\n{}", pre, item);
        r.cases += 1;
        let out = match expand(&src) { Ok(o) => o, Err(_) => { continue; } };   // rejected inputs are outside the statement
        let is = match impls(&out) { Ok(i) => i, Err(e) => { r.fail(&src, e); continue; } };
        if is.len() != 12 { r.fail(&src, format!("{} impls instead of 12", is.len())); continue; }
        let find = |m: &str, by_ref: bool| is.iter().find(|i| i.method == m && (i.head.contains("for & A") || i.head.contains("< & B >")) == by_ref);
        let norm_ref = |b: String| b.replace("(& (self . ", "(self . ").replace("(& value) .", "value .");
        let paren_fix = |b: String| { // `(self . p0)) . into_existing` left by the replacement above -> `self . p0 . into_existing`
            let mut s = b; for k in 0..3 { s = s.replace(&format!("(self . p{})) .", k), &format!("self . p{} .", k)); } s };
        let mut bad = false;
        for m in ["from", "into", "into_existing", "try_from", "try_into", "try_into_existing"] {
            let (o, rf) = match (find(m, false), find(m, true)) { (Some(o), Some(rf)) => (o, rf), _ => { r.fail(&src, format!("missing owned or by-reference impl of {}", m)); bad = true; break; } };
            // (a) the by-reference body is the owned body, borrowing where the owned one moves
            let (bo, br) = (paren_fix(norm_ref(fn_body_tokens(o))), paren_fix(norm_ref(fn_body_tokens(rf))));
            if bo != br { r.fail(&src, format!("[{}] by-reference body differs from the owned one: {} <> {}", m, br, bo)); bad = true; break; }
        }
        if bad { continue; }
        for (plain, fall) in [("from", "try_from"), ("into", "try_into"), ("into_existing", "try_into_existing")] {
            // (b) the fallible body is Ok(of the infallible one), errors of the poured parent propagated
            let (p_, f_) = (find(plain, false).unwrap(), find(fall, false).unwrap());
            let fb = fn_body_tokens(f_).replace("try_into_existing", "into_existing").replace(". try_into () ?", ". into ()").replace(") ? ;", ") ;");
            let pb = fn_body_tokens(p_);
            let ok = fb == format!("Ok ({})", pb) || fb == format!("{} Ok (())", pb) || (pb.ends_with(" obj") && fb == format!("{} Ok (obj)", &pb[..pb.len() - 4])) || (pb.is_empty() && fb == "Ok (())");
            if !ok { r.fail(&src, format!("[{}] is not Ok(..) of [{}]: {} <> {}", fall, plain, fb, pb)); bad = true; break; }
        }
        if bad { continue; }
        // (c) into_existing leaves every mapped field equal to what into builds, and pours the same parents
        let (i_, e_) = (find("into", false).unwrap(), find("into_existing", false).unwrap());
        let post = fn_body_tokens(i_).starts_with("let mut obj");
        match (assignments(i_, "obj"), assignments(e_, "other")) {
            (Ok((mi, ri)), Ok((me, re))) => {
                if mi != me { r.fail(&src, format!("into builds {:?}, into_existing assigns {:?}", mi, me)); continue; }
                let ri: Vec<String> = ri.into_iter().filter(|x| !(post && (x == "letmutobj:B=Default::default();" || x == "obj"))).map(|x| x.replace("(&mutobj)", "(other)")).collect();
                if ri != re { r.fail(&src, format!("into pours {:?}, into_existing pours {:?}", ri, re)); continue; }
            }
            (a, b) => { r.fail(&src, format!("{:?} / {:?}", a.err(), b.err())); }
        }
    }
}

// C17: accepted inputs expand to impl items of the right shape
fn shape_ok(i: &syn::ItemImpl) -> Result<(), String> {
    let tr = i.trait_.as_ref().map(|t| ts(&t.1).replace(' ', "")).unwrap_or_default();
    let table = [("::core::convert::From<", "from", false), ("::core::convert::TryFrom<", "try_from", true), ("::core::convert::Into<", "into", false), ("::core::convert::TryInto<", "try_into", true),
        ("o2o::traits::IntoExisting<", "into_existing", false), ("o2o::traits::TryIntoExisting<", "try_into_existing", true)];
    let (_, method, fall) = table.iter().find(|(p, _, _)| tr.starts_with(p)).ok_or(format!("implements `{}`, not one of the six conversion traits", tr))?;
    let fns: Vec<&syn::ImplItemMethod> = i.items.iter().filter_map(|x| if let syn::ImplItem::Method(m) = x { Some(m) } else { None }).collect();
    let tys: Vec<&syn::ImplItemType> = i.items.iter().filter_map(|x| if let syn::ImplItem::Type(t) = x { Some(t) } else { None }).collect();
    if fns.len() != 1 || fns[0].sig.ident != method { return Err(format!("`{}`: methods {:?}, expected exactly `{}`", tr, fns.iter().map(|f| f.sig.ident.to_string()).collect::<Vec<_>>(), method)); }
    if i.items.len() != 1 + if *fall { 1 } else { 0 } { return Err(format!("`{}`: {} items in the impl", tr, i.items.len())); }
    if *fall && !(tys.len() == 1 && tys[0].ident == "Error") { return Err(format!("`{}`: no `type Error`", tr)); }
    let sig = &fns[0].sig;
    let inputs: Vec<String> = sig.inputs.iter().map(|a| ts(a).replace(' ', "")).collect();
    let ret = ts(&sig.output).replace(' ', "");
    let ok = match *method {
        "from" | "try_from" => inputs.len() == 1 && inputs[0].starts_with("value:"),
        "into" | "try_into" => inputs == ["self"],
        _ => inputs.len() == 2 && inputs[0] == "self" && inputs[1].starts_with("other:&mut"),
    } && (if *fall { ret.starts_with("->::core::result::Result<") } else if method.ends_with("existing") { ret.is_empty() } else { ret.starts_with("->") });
    if !ok { return Err(format!("`{}`: signature fn {}({}) {}", tr, method, inputs.join(", "), ret)); }
    Ok(())
}

fn c17(r: &mut Rep) {
    let names = ["map", "try_map", "into_existing", "try_into_existing"];
    let mut inputs: Vec<String> = vec![];
    for (pre, item) in struct_corpus() {
        for n in names { inputs.push(format!("{}#[{}(B{})]\n{}", pre, n, if n.contains("try") { ", E" } else { "" }, item)); }
    }
    // tuple structs, hints, unit, nameless tuples, enums
    let more = ["struct A(i32, #[map(1)] i32);", "struct A(#[parent] P, i32);", "struct A;", "struct A { x: i32 }", "struct A(i32);",
        "enum A { V, W(i32), X { a: i32 } }", "enum A { #[map(Q)] V, #[type_hint(as {})] W(i32), #[type_hint(as ())] X { a: i32 } }", "enum A { V(#[map(~ + 1)] i32), W { #[map(b)] a: i32 } }"];
    let heads = ["B", "B as ()", "B as {}", "B as Unit", "(i32, i32)"];
    for m in more { for h in heads { for n in ["map", "try_map", "into_existing", "try_into_existing", "from_owned", "ref_into"] {
        if m.starts_with("enum") && (h != "B" || n.contains("existing")) { continue; }   // enum x into_existing: recorded open defect (DESIGN section 6)
        inputs.push(format!("#[{}({}{})]\n{}", n, h, if n.contains("try") { ", E" } else { "" }, m));
    } } }
    // nested children of mixed form: named / positional at each level, by hint or by the own struct's form; ghost-only levels
    let hints = ["", " as ()", " as {}"];
    for own_tuple in [false, true] {
        for ho in hints { for hi in hints { for content in ["ghost", "field", "both"] { for ren in [false, true] {
            let outer_tuple = ho == " as ()" || (ho.is_empty() && own_tuple);
            let inner_tuple = hi == " as ()" || (hi.is_empty() && own_tuple);
            let base = if own_tuple { "1" } else { "base" };
            let k = if outer_tuple { "1" } else { "inner" };
            let g = if inner_tuple { "0" } else { "x" };
            let r1 = if ren { if outer_tuple { "#[map(0)] " } else { "#[map(number)] " } } else { "" };
            let r2 = if ren { if inner_tuple { "#[map(0)] " } else { "#[map(deep)] " } } else { "" };
            let ghosts = if content != "field" { format!("#[ghosts({}.{}@{}: {{ 123 }})]\n", base, k, g) } else { String::new() };
            let deep = if content != "ghost" { if own_tuple { format!(", #[child({}.{})] {}i8", base, k, r2) } else { format!(", #[child({}.{})] {}deep: i8", base, k, r2) } } else { String::new() };
            let item = if own_tuple { format!("struct D(i32, #[child({})] {}i16{});", base, r1, deep) } else { format!("struct D {{ id: i32, #[child({})] {}number: i16{} }}", base, r1, deep) };
            for n in ["owned_into", "ref_into", "into_existing", "map", "try_map"] {
                inputs.push(format!("#[{}(B{})]\n#[child_parents({}: TO{}, {}.{}: TI{})]\n{}{}", n, if n.contains("try") { ", E" } else { "" }, base, ho, base, k, hi, ghosts, item));
            }
        } } } }
    }
    inputs.push("#[map(i32| _ => todo!())]\nenum A { #[literal(1)] V, #[pattern(2..=3)] #[into({ 2 })] W }".into());
    inputs.push("#[map(B)]\n#[ghosts(Z: { A::V })]\nenum A { V, #[ghost({ B::V })] W }".into());
    let mut accepted = 0usize;
    for src in inputs {
        r.cases += 1;
        let out = match expand(&src) { Ok(o) => o, Err(_) => continue };   // only accepted inputs are in the statement
        accepted += 1;
        let f: syn::File = match syn::parse_str(&out) { Ok(f) => f, Err(e) => { r.fail(&src, format!("the expansion is not a sequence of Rust items: {} :: {}", e, out.chars().take(400).collect::<String>())); continue; } };
        for it in &f.items {
            match it { syn::Item::Impl(i) => if let Err(e) = shape_ok(i) { r.fail(&src, e); break; }, o => { r.fail(&src, format!("not an impl item: {}", ts(o).chars().take(100).collect::<String>())); break; } }
        }
    }
    eprintln!("accepted {}", accepted);
}


// ---------------------------------------------------------------- c01: every value goes to the designated field, nothing else is written
// (member text, Into: (destination path, expression on `self`) or None, From: (own field, expression on `value`) or None, is bare parent)
fn member_specs(i: usize) -> Vec<(String, Option<(String, String)>, Option<(String, String)>, bool)> {
    let x = format!("x{}", i);
    let y = format!("y{}", i);
    let p = format!("p{}", i);
    vec![
        (format!("{}: i32", x), Some((x.clone(), format!("self.{}", x))), Some((x.clone(), format!("value.{}", x))), false),
        (format!("#[map({})] {}: i32", y, x), Some((y.clone(), format!("self.{}", x))), Some((x.clone(), format!("value.{}", y))), false),
        (format!("#[map(~.clone())] {}: i32", x), Some((x.clone(), format!("self.{}.clone()", x))), Some((x.clone(), format!("value.{}.clone()", x))), false),
        (format!("#[map({}, ~.clone())] {}: i32", y, x), Some((y.clone(), format!("self.{}.clone()", x))), Some((x.clone(), format!("value.{}.clone()", y))), false),
        (format!("#[from(~ + 1)] #[into(~ - 1)] {}: i32", x), Some((x.clone(), format!("self.{}-1", x))), Some((x.clone(), format!("value.{}+1", x))), false),
        (format!("#[ghost({{ 7 }})] {}: i32", x), None, Some((x.clone(), "7".into())), false),
        (format!("#[child(c)] {}: i32", x), Some((format!("c.{}", x), format!("self.{}", x))), Some((x.clone(), format!("value.c.{}", x))), false),
        (format!("#[child(c.d)] #[map({})] {}: i32", y, x), Some((format!("c.d.{}", y), format!("self.{}", x))), Some((x.clone(), format!("value.c.d.{}", y))), false),
        (format!("#[from(@.q + ~)] #[into({}, @.{}.len() + ~)] {}: i32", y, x, x), Some((y.clone(), format!("self.{}.len()+self.{}", x, x))), Some((x.clone(), format!("value.q+value.{}", x))), false),
        (format!("#[parent] {}: P", p), None, Some((p.clone(), "PARENT".into())), true),
    ]
}

fn c01(r: &mut Rep) {
    let (s0, s1, s2) = (member_specs(0), member_specs(1), member_specs(2));
    let mut combos: Vec<Vec<&(String, Option<(String, String)>, Option<(String, String)>, bool)>> = vec![];
    for a in &s0 { combos.push(vec![a]); for b in &s1 { combos.push(vec![a, b]); for c in &s2 { combos.push(vec![a, b, c]); } } }
    for ms in combos {
        for gh in [false, true] {
            let body = ms.iter().map(|m| m.0.clone()).collect::<Vec<_>>().join(", ");
            let cp = if body.contains("#[child(") { "#[child_parents(c: C, c.d: D)]\n" } else { "" };
            let src = format!("{}{}#[map(B)]\n#[into_existing(B)]\nstruct A {{ {} }}", cp, if gh { "#[ghosts(g: { 1 })]\n" } else { "" }, body);
            r.cases += 1;
            let out = match expand(&src) { Ok(o) => o, Err(e) => { r.fail(&src, format!("does not expand: {}", e)); continue; } };
            let is = match impls(&out) { Ok(i) => i, Err(e) => { r.fail(&src, e); continue; } };
            if is.len() != 6 { r.fail(&src, format!("{} impls instead of 6", is.len())); continue; }
            let parents: Vec<String> = ms.iter().filter(|m| m.3).map(|m| m.2.as_ref().unwrap().0.clone()).collect();
            for i in &is {
                let by_ref = i.head.contains("for & A") || i.head.contains("< & B >");
                if i.method == "from" {
                    let mut exp: BTreeMap<String, String> = BTreeMap::new();
                    for m in &ms { if let Some((f, e)) = &m.2 { exp.insert(f.clone(), if m.3 { if by_ref { "value.into()".into() } else { "(&value).into()".into() } } else { e.clone() }); } }
                    match assignments(i, "-") {
                        Ok((got, rest)) if got == exp && rest.is_empty() => {}
                        o => { r.fail(&src, format!("[{}] {:?}, every own field must receive its designated counterpart value: {:?}", i.head, o, exp)); break; }
                    }
                } else {
                    let dst = if i.method == "into" { "obj" } else { "other" };
                    let mut exp: BTreeMap<String, String> = BTreeMap::new();
                    for m in &ms { if let Some((d, e)) = &m.1 { exp.insert(d.clone(), e.clone()); } }
                    if gh { exp.insert("g".into(), "1".into()); }
                    let mut exp_rest: Vec<String> = vec![];
                    if i.method == "into" && !parents.is_empty() { exp_rest.push("letmutobj:B=Default::default();".into()); }
                    for p in &parents { exp_rest.push(format!("{}.into_existing({});", if by_ref { format!("(&(self.{}))", p) } else { format!("self.{}", p) }, if i.method == "into" { "&mutobj" } else { "other" })); }
                    if i.method == "into" && !parents.is_empty() { exp_rest.push("obj".into()); }
                    match assignments(i, dst) {
                        Ok((got, rest)) if got == exp && rest == exp_rest => {}
                        o => { r.fail(&src, format!("[{}] {:?}, the designated fields are {:?} and the other statements {:?}", i.head, o, exp, exp_rest)); break; }
                    }
                }
            }
        }
    }
}


// c01, tuple counterparts: Into writes position k for the k-th rendered member, in the literal `B(e0, e1, ..)` and in the
// `obj.k = ..;` form that a bare #[parent] forces (ghost and parent members are not rendered and take no position)
fn c01_tuple(r: &mut Rep) {
    // (member text, rendered expression on `self.<decl index>` or None when skipped, is parent)
    let forms = |i: usize| -> Vec<(String, Option<String>, bool)> { vec![
        ("i32".into(), Some(format!("self.{}", i)), false),
        ("#[map(~.clone())] i32".into(), Some(format!("self.{}.clone()", i)), false),
        ("#[ghost({ 7 })] i32".into(), None, false),
        ("#[parent] P".into(), None, true),
    ] };
    let mut combos: Vec<Vec<(String, Option<String>, bool)>> = vec![vec![]];
    for i in 0..4 { let mut nx = vec![]; for c in &combos { for f in forms(i) { let mut t = c.clone(); t.push(f); nx.push(t); } } combos = nx; }
    for ms in combos {
        for (head, named) in [("B", false), ("B as ()", false), ("B as ()", true)] {
            let body = if named { format!("struct A {{ {} }}", ms.iter().enumerate().map(|(i, m)| format!("{} : {}", m.0.replacen(" i32", &format!(" m{}: i32", i), 1).replacen(" P", &format!(" m{}: P", i), 1).replace(": i32 : ", ": ").replace(": P : ", ": "), "")).collect::<Vec<_>>().join(", ")) } else { format!("struct A({});", ms.iter().map(|m| m.0.clone()).collect::<Vec<_>>().join(", ")) };
            if named { continue; }   // named members onto a positional counterpart: covered by the Verus cells; the text surgery above is not worth it
            let src = format!("#[into({})]\n{}", head, body);
            r.cases += 1;
            let out = match expand(&src) { Ok(o) => o, Err(_) => continue };
            let is = match impls(&out) { Ok(i) => i, Err(e) => { r.fail(&src, e); continue; } };
            let rendered: Vec<String> = ms.iter().filter_map(|m| m.1.clone()).collect();
            let parents: Vec<usize> = ms.iter().enumerate().filter(|(_, m)| m.2).map(|(i, _)| i).collect();
            for i in &is {
                let by_ref = i.head.contains("for & A");
                let toks: Vec<String> = i.stmts.iter().map(|s| ts(s).replace(' ', "")).collect();
                let exp: Vec<String> = if parents.is_empty() {
                    vec![format!("B({})", rendered.iter().map(|e| format!("{},", e)).collect::<String>())]
                } else {
                    let mut v = vec!["letmutobj:B=Default::default();".to_string()];
                    for (k, e) in rendered.iter().enumerate() { v.push(format!("obj.{}={};", k, e)); }
                    for p in &parents { v.push(format!("{}.into_existing(&mutobj);", if by_ref { format!("(&(self.{}))", p) } else { format!("self.{}", p) })); }
                    v.push("obj".into());
                    v
                };
                let unit_ok = rendered.is_empty() && parents.is_empty();
                if toks != exp && !(unit_ok && (toks == ["B()"] || toks == ["B"])) { r.fail(&src, format!("[{}] body {:?}, expected {:?}", i.head, toks, exp)); break; }
            }
        }
    }
}

// c01, members designated by tuple index (From direction): own member k receives `value.<designated index>` under the
// member's instruction - by position when nothing is designated, by the index given in #[map(i)], #[map(i, expr)] and
// #[as_type(i, T)] otherwise - for a tuple struct and for a named struct mapped onto `B as ()`
fn c01_positional(r: &mut Rep) {
    // (instruction text with @I@ for the designated index, designates?, expected expression on `value.@S@`)
    let forms: Vec<(&str, bool, &str)> = vec![
        ("", false, "value.@S@"),
        ("#[map(@I@)] ", true, "value.@S@"),
        ("#[map(@I@, ~.clone())] ", true, "value.@S@.clone()"),
        ("#[map(~.clone())] ", false, "value.@S@.clone()"),
        ("#[as_type(i64)] ", false, "value.@S@asi32"),
        ("#[as_type(@I@, i64)] ", true, "value.@S@asi32"),
        ("#[from(@I@, ~ + 1)] ", true, "value.@S@+1"),
    ];
    let perms: [[usize; 3]; 6] = [[0, 1, 2], [0, 2, 1], [1, 0, 2], [1, 2, 0], [2, 0, 1], [2, 1, 0]];
    for named in [false, true] {
        for perm in perms.iter() {
            for f0 in &forms { for f1 in &forms { for f2 in &forms {
                let fs = [f0, f1, f2];
                let mut members = vec![];
                let mut exp: BTreeMap<String, String> = BTreeMap::new();
                for k in 0..3 {
                    let idx = if fs[k].1 { perm[k] } else { k };
                    let own = if named { format!("m{}", k) } else { format!("{}", k) };
                    members.push(format!("{}{}i32", fs[k].0.replace("@I@", &perm[k].to_string()), if named { format!("{}: ", own) } else { String::new() }));
                    exp.insert(own, fs[k].2.replace("@S@", &idx.to_string()));
                }
                let src = if named { format!("#[from(B as ())]\nstruct A {{ {} }}", members.join(", ")) } else { format!("#[from(B)]\nstruct A({});", members.join(", ")) };
                r.cases += 1;
                let out = match expand(&src) { Ok(o) => o, Err(e) => { r.fail(&src, format!("does not expand: {}", e)); continue; } };
                let is = match impls(&out) { Ok(i) => i, Err(e) => { r.fail(&src, e); continue; } };
                if is.len() != 2 { r.fail(&src, format!("{} impls instead of 2", is.len())); continue; }
                for i in &is {
                    let got: Result<BTreeMap<String, String>, String> = if named {
                        assignments(i, "-").and_then(|(g, rest)| if rest.is_empty() { Ok(g) } else { Err(format!("extra statements {:?}", rest)) })
                    } else {
                        // A(e0, e1, e2,)
                        match i.stmts.as_slice() {
                            [syn::Stmt::Expr(syn::Expr::Call(c))] if ts(&c.func) == "A" => Ok(c.args.iter().enumerate().map(|(k, a)| (k.to_string(), ts(a).replace(' ', ""))).collect()),
                            o => Err(format!("body is not one constructor call: {:?}", o.iter().map(|s| ts(s)).collect::<Vec<_>>())),
                        }
                    };
                    match got {
                        Ok(g) if g == exp => {}
                        o => { r.fail(&src, format!("[{}] {:?}, every own member must receive the designated counterpart position: {:?}", i.head, o, exp)); break; }
                    }
                }
            } } }
        }
    }
}

// ---------------------------------------------------------------- c04: exactly the documented impls, one per (kind, fallibility, counterpart)
fn documented(name: &str) -> (bool, Vec<&'static str>) {
    let fall = name.contains("try_");
    let n = name.replace("try_", "");
    let kinds: Vec<&'static str> = match n.as_str() {
        "owned_into" => vec!["OwnedInto"], "ref_into" => vec!["RefInto"], "into" => vec!["OwnedInto", "RefInto"],
        "from_owned" => vec!["FromOwned"], "from_ref" => vec!["FromRef"], "from" => vec!["FromOwned", "FromRef"],
        "map_owned" => vec!["FromOwned", "OwnedInto"], "map_ref" => vec!["FromRef", "RefInto"], "map" => vec!["FromOwned", "FromRef", "OwnedInto", "RefInto"],
        "owned_into_existing" => vec!["OwnedIntoExisting"], "ref_into_existing" => vec!["RefIntoExisting"], "into_existing" => vec!["OwnedIntoExisting", "RefIntoExisting"],
        _ => vec![],
    };
    (fall, kinds)
}
fn header(kind: &str, fall: bool, own: &str, other: &str) -> String {
    let t = if fall { "Try" } else { "" };
    match kind {
        "FromOwned" => format!("::core::convert::{}From<{}>for{}", t, other, own),
        "FromRef" => format!("::core::convert::{}From<&{}>for{}", t, other, own),
        "OwnedInto" => format!("::core::convert::{}Into<{}>for{}", t, other, own),
        "RefInto" => format!("::core::convert::{}Into<{}>for&{}", t, other, own),
        "OwnedIntoExisting" => format!("o2o::traits::{}IntoExisting<{}>for{}", t, other, own),
        _ => format!("o2o::traits::{}IntoExisting<{}>for&{}", t, other, own),
    }
}

fn c04(r: &mut Rep) {
    let names = ["owned_into", "ref_into", "into", "from_owned", "from_ref", "from", "map_owned", "map_ref", "map", "owned_into_existing", "ref_into_existing", "into_existing",
        "owned_try_into", "ref_try_into", "try_into", "try_from_owned", "try_from_ref", "try_from", "try_map_owned", "try_map_ref", "try_map", "owned_try_into_existing", "ref_try_into_existing", "try_into_existing"];
    let bodies = [("struct A { x: i32 }", false), ("enum A { V, W(i32) }", true), ("struct A(i32, i32);", false)];
    let types = ["B", "crate::m::B", "B<i32>", "crate::m::B<i32>", "::m::n::B<i32, u8>", "(i32, i32)"];
    let errs = ["E", "E<i32>", "crate::e::E<i32>"];
    let args = |n: &str, t: &str, e: &str| if n.contains("try_") { format!("{}, {}", t, e) } else { t.to_string() };
    let check = |r: &mut Rep, src: &str, instrs: &[(&str, &str)], e: &str| -> Option<Vec<String>> {
        // into_existing on an enum: recorded open defect (body is not Rust, DESIGN section 6) - the header check needs a parsable item
        if src.contains("enum A") && src.contains("existing") { return None; }
        r.cases += 1;
        let out = match expand(src) { Ok(o) => o, Err(_) => return None };
        let f: syn::File = match syn::parse_str(&out) { Ok(f) => f, Err(er) => { r.fail(src, format!("not Rust items: {}", er)); return None; } };
        let mut got: Vec<String> = vec![];
        for it in &f.items { if let syn::Item::Impl(i) = it {
            got.push(format!("{}for{}", i.trait_.as_ref().map(|t| ts(&t.1)).unwrap_or_default(), ts(&i.self_ty)).replace(' ', ""));
            let fall = i.trait_.as_ref().map(|t| ts(&t.1).contains("Try")).unwrap_or(false);
            let err: Vec<String> = i.items.iter().filter_map(|x| if let syn::ImplItem::Type(t) = x { Some(ts(&t.ty).replace(' ', "")) } else { None }).collect();
            if fall && err != [e.replace(' ', "")] { r.fail(src, format!("`type Error` of a fallible impl: {:?}, declared {}", err, e)); }
            if !fall && !err.is_empty() { r.fail(src, "an infallible impl has an associated type".into()); }
        } }
        let mut exp: Vec<String> = vec![];
        for (n, t) in instrs { let (fall, kinds) = documented(n); for k in kinds { exp.push(header(k, fall, "A", &t.replace(' ', ""))); } }
        let (mut g, mut x) = (got.clone(), exp.clone());
        g.sort(); x.sort();
        let mut xd = x.clone(); xd.dedup();
        if xd.len() != x.len() {
            // the same (kind, fallibility, counterpart) requested twice: there is no way to emit "one impl per request" - must not be accepted
            r.fail(src, format!("accepted although one (kind, fallibility, counterpart) is requested twice; impls emitted: {:?}", g));
            return None;
        }
        if g != x { r.fail(src, format!("impls {:?}, documented {:?}", g, x)); return None; }
        Some(got)
    };
    for (body, is_enum) in bodies {
        for e in errs {
            for t in types {
                if *t == *"(i32, i32)" && (is_enum || body.contains('{')) { continue; }
                for n in names {
                    let src = format!("#[{}({})]\n{}", n, args(n, t, e), body);
                    if expand(&src).is_err() { r.cases += 1; r.fail(&src, "a single documented instruction is rejected".into()); continue; }
                    check(r, &src, &[(n, t)], e);
                }
            }
            // pairs: same counterpart (overlaps must be rejected), different counterparts, both orders
            for n1 in names { for n2 in names {
                for (t1, t2) in [("B", "B"), ("B", "C"), ("B<i32>", "B<u8>"), ("v1::M<i32>", "v2::M<i32>")] {
                    let s12 = format!("#[{}({})]\n#[{}({})]\n{}", n1, args(n1, t1, e), n2, args(n2, t2, e), body);
                    let s21 = format!("#[{}({})]\n#[{}({})]\n{}", n2, args(n2, t2, e), n1, args(n1, t1, e), body);
                    let a = check(r, &s12, &[(n1, t1), (n2, t2)], e);
                    let b = check(r, &s21, &[(n2, t2), (n1, t1)], e);
                    if let (Some(mut a), Some(mut b)) = (a, b) { a.sort(); b.sort(); if a != b { r.fail(&s12, "the set of impls depends on the order of the instructions".into()); } }
                }
            } }
        }
    }
}


// ---------------------------------------------------------------- c02: enum arms and payloads against an oracle written from the statement
fn c02(r: &mut Rep) {
    // named payload member i: (text, binder on the counterpart side or None, From line, Into line or None)
    let named = |i: usize| -> Vec<(String, Option<String>, String, Option<String>)> { let (x, y) = (format!("x{}", i), format!("y{}", i)); vec![
        (format!("{}: i32", x), Some(x.clone()), format!("{}:{},", x, x), Some(format!("{}:{},", x, x))),
        (format!("#[map({})] {}: i32", y, x), Some(y.clone()), format!("{}:{},", x, y), Some(format!("{}:{},", y, x))),
        (format!("#[ghost({{ 7 }})] {}: i32", x), None, format!("{}:7,", x), None),
        (format!("#[map(~.clone())] {}: i32", x), Some(x.clone()), format!("{}:{}.clone(),", x, x), Some(format!("{}:{}.clone(),", x, x))),
        (format!("#[map({}, ~.clone())] {}: i32", y, x), Some(y.clone()), format!("{}:{}.clone(),", x, y), Some(format!("{}:{}.clone(),", y, x))),
        (format!("#[from(~ + 1)] #[into(~ - 1)] {}: i32", x), Some(x.clone()), format!("{}:{}+1,", x, x), Some(format!("{}:{}-1,", x, x))),
    ] };
    // tuple payload member i: (text, bound on the counterpart side, From element, Into element or None)
    let tuple = |i: usize| -> Vec<(String, bool, String, Option<String>)> { let f = format!("f{}", i); vec![
        ("i32".into(), true, format!("{},", f), Some(format!("{},", f))),
        ("#[ghost({ 7 })] i32".into(), false, "7,".into(), None),
        ("#[map(~.clone())] i32".into(), true, format!("{}.clone(),", f), Some(format!("{}.clone(),", f))),
        ("#[from(~ + 1)] #[into(~ - 1)] i32".into(), true, format!("{}+1,", f), Some(format!("{}-1,", f))),
    ] };
    let mut nseqs: Vec<Vec<(String, Option<String>, String, Option<String>)>> = vec![];
    for a in named(0) { nseqs.push(vec![a.clone()]); for b in named(1) { nseqs.push(vec![a.clone(), b.clone()]); for c in named(2) { nseqs.push(vec![a.clone(), b.clone(), c]); } } }
    let mut tseqs: Vec<Vec<(String, bool, String, Option<String>)>> = vec![];
    for a in tuple(0) { tseqs.push(vec![a.clone()]); for b in tuple(1) { tseqs.push(vec![a.clone(), b.clone()]); for c in tuple(2) { tseqs.push(vec![a.clone(), b.clone(), c]); } } }
    for (k, ns) in nseqs.iter().enumerate() {
        let tsq = &tseqs[k % tseqs.len()];
        if ns.iter().all(|m| m.1.is_none()) || tsq.iter().all(|m| !m.1) { continue; }   // payloads consisting of ghosts only: counterpart variant has another form
        for rename in [false, true] {
            let (vq, wq) = if rename { ("Q", "R") } else { ("V", "W") };
            let va = if rename { "#[map(Q)] " } else { "" };
            let wa = if rename { "#[map(R)] " } else { "" };
            let src = format!("#[map(B)]\nenum A {{ {}V {{ {} }}, {}W({}), U }}", va, ns.iter().map(|m| m.0.clone()).collect::<Vec<_>>().join(", "), wa, tsq.iter().map(|m| m.0.clone()).collect::<Vec<_>>().join(", "));
            r.cases += 1;
            let out = match expand(&src) { Ok(o) => o, Err(e) => { r.fail(&src, format!("does not expand: {}", e)); continue; } };
            let is = match impls(&out) { Ok(i) => i, Err(e) => { r.fail(&src, e); continue; } };
            if is.len() != 4 { r.fail(&src, format!("{} impls instead of 4", is.len())); continue; }
            let all_named: String = (0..ns.len()).map(|i| format!("x{},", i)).collect();
            let all_tuple: String = (0..tsq.len()).map(|i| format!("f{},", i)).collect();
            let from = format!("matchvalue{{B::{}{{{}}}=>A::V{{{}}},B::{}({})=>A::W({}),B::U=>A::U,}}", vq,
                ns.iter().filter_map(|m| m.1.clone()).map(|b| format!("{},", b)).collect::<String>(), ns.iter().map(|m| m.2.clone()).collect::<String>(),
                wq, tsq.iter().enumerate().filter(|(_, m)| m.1).map(|(i, _)| format!("f{},", i)).collect::<String>(), tsq.iter().map(|m| m.2.clone()).collect::<String>());
            let into = format!("matchself{{A::V{{{}}}=>B::{}{{{}}},A::W({})=>B::{}({}),A::U=>B::U,}}", all_named, vq, ns.iter().filter_map(|m| m.3.clone()).collect::<String>(),
                all_tuple, wq, tsq.iter().filter_map(|m| m.3.clone()).collect::<String>());
            for i in &is {
                let got = fn_body_tokens(i).replace(' ', "");
                let exp = if i.method == "from" { &from } else { &into };
                if &got != exp { r.fail(&src, format!("[{}] body {} expected {}", i.head, got, exp)); break; }
            }
        }
    }
}

fn main() {
    panic::set_hook(Box::new(|_| {}));
    let suite = std::env::args().nth(1).unwrap_or_default();
    let mut r = Rep { cases: 0, fails: vec![] };
    match suite.as_str() {
        "c08" => c08(&mut r),
        "c03" => c03(&mut r),
        "c11" => c11(&mut r),
        "c07" => c07(&mut r),
        "c01" => { c01(&mut r); c01_tuple(&mut r); c01_positional(&mut r); }
        "c04" => c04(&mut r),
        "c02" => c02(&mut r),
        "c17" => c17(&mut r),
        _ => { eprintln!("usage: structural c08|c03|c11"); std::process::exit(2); }
    }
    println!("{{\"suite\":\"{}\",\"cases\":{},\"failures\":{}}}", suite, r.cases, r.fails.len());
    let cap = if std::env::var("STRUCTURAL_ALL").is_ok() { usize::MAX } else { 10 };
    for (a, why) in r.fails.iter().take(cap) {
        println!("FAIL\t{}\t{}", a, why.replace('\n', " ").chars().take(900).collect::<String>());
    }
}
