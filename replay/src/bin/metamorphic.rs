// Bounded metamorphic stand-ins (TESTING, not proof) for functions outside the verifier's reach, run on the real derive:
//   c13  the two attribute front-ends (get_data_type_attrs / get_member_attrs): an instruction written `#[i(a)]`,
//        `#[o2o(i(a))]` or grouped `#[o2o(i(a), j(b))]` must give the same result (tokens, or the same diagnostics)
//   c12  end to end: a shortcut instruction gives the same impl items as the basic instructions it abbreviates
//   c06  end to end: the impls for counterpart A in a joint expansion equal the expansion of the input projected to A
// usage: metamorphic <suite>      prints {"suite":..,"cases":N,"failures":M} and up to 10 FAIL lines
use std::panic;

fn expand(src: &str) -> Result<String, String> {
    let node: syn::DeriveInput = match syn::parse_str(src) {
        Ok(n) => n,
        Err(e) => return Err(format!("PARSE {}", e)),
    };
    match panic::catch_unwind(|| o2o_impl::expand::derive(&node)) {
        Ok(Ok(ts)) => Ok(ts.to_string()),
        Ok(Err(e)) => {
            let mut m: Vec<String> = e.into_iter().map(|x| x.to_string()).collect();
            m.sort();
            Err(format!("ERR {}", m.join(" || ")))
        }
        Err(_) => Err("PANIC".into()),
    }
}

// split an expansion into its impl items (top-level `impl ... { ... }` groups)
fn items(ts: &str) -> Vec<String> {
    let t: proc_macro2::TokenStream = ts.parse().unwrap();
    let mut out = vec![];
    let mut cur = vec![];
    for tt in t {
        let is_body = matches!(&tt, proc_macro2::TokenTree::Group(g) if g.delimiter() == proc_macro2::Delimiter::Brace);
        cur.push(tt.to_string());
        if is_body {
            out.push(cur.join(" "));
            cur = vec![];
        }
    }
    out
}

struct Rep { cases: usize, both_ok: usize, fails: Vec<(String, String, String)> }
impl Rep {
    fn same(&mut self, a_src: &str, b_src: &str) {
        self.cases += 1;
        let (a, b) = (expand(a_src), expand(b_src));
        if a.is_ok() && b.is_ok() { self.both_ok += 1; }
        if a != b {
            self.fails.push((a_src.replace('\n', " "), b_src.replace('\n', " "), format!("{:?} <> {:?}", a, b)));
        }
    }
    fn same_items(&mut self, a_src: &str, b_src: &str) {
        self.cases += 1;
        match (expand(a_src), expand(b_src)) {
            (Ok(a), Ok(b)) => {
                self.both_ok += 1;
                let (mut x, mut y) = (items(&a), items(&b));
                x.sort();
                y.sort();
                if x != y {
                    self.fails.push((a_src.replace('\n', " "), b_src.replace('\n', " "), format!("{:?} <> {:?}", x, y)));
                }
            }
            (a, b) => {
                if a.is_ok() != b.is_ok() {
                    self.fails.push((a_src.replace('\n', " "), b_src.replace('\n', " "), format!("{:?} <> {:?}", a, b)));
                }
            }
        }
    }
}

fn c13(r: &mut Rep) {
    // type-level instructions with arguments (name, args)
    let trait_names = ["owned_into", "ref_into", "into", "from_owned", "from_ref", "from", "map_owned", "map_ref", "map", "owned_into_existing", "ref_into_existing", "into_existing"];
    let mut type_instrs: Vec<(String, String)> = vec![];
    for n in trait_names {
        type_instrs.push((n.to_string(), "(B)".to_string()));
    }
    for n in ["owned_try_into", "ref_try_into", "try_into", "try_from_owned", "try_from_ref", "try_from", "try_map_owned", "try_map_ref", "try_map", "owned_try_into_existing", "ref_try_into_existing", "try_into_existing"] {
        type_instrs.push((n.to_string(), "(B, E)".to_string()));
    }
    let extras: Vec<(String, String)> = vec![
        ("ghosts".into(), "(g: { 1 })".into()), ("ghosts_owned".into(), "(g: { 1 })".into()), ("ghosts_ref".into(), "(g: { 1 })".into()),
        ("where_clause".into(), "(T: Clone)".into()), ("child_parents".into(), "(c: C)".into()),
        ("map".into(), "(C| vars(v: {1}), ..Default::default())".into()), ("from".into(), "(C| return todo!())".into()),
        ("allow_unknown".into(), "".into()), ("unknown_thing".into(), "(1)".into()), ("parent".into(), "".into()), ("child".into(), "(c)".into()),
    ];
    let body = "struct A<T> { x: T, y: i32 }";
    let spell = |bare: bool, n: &str, a: &str| if bare { format!("#[{}{}]", n, a) } else { format!("#[o2o({}{})]", n, a) };
    // single instruction: bare vs wrapped (allow_unknown has no bare form)
    for (n, a) in type_instrs.iter().chain(extras.iter()) {
        // misplaced / unknown names are outside the statement (only their diagnostics may differ between the spellings)
        if n == "allow_unknown" || n == "unknown_thing" || n == "parent" || n == "child" { continue; }
        r.same(&format!("{}\n{}", spell(true, n, a), body), &format!("{}\n{}", spell(false, n, a), body));
    }
    // pairs: separate attributes vs one grouped list (both already in o2o form, so only grouping differs), and mixed
    for (n1, a1) in type_instrs.iter() {
        for (n2, a2) in extras.iter() {
            let sep = format!("#[o2o({}{})]\n#[o2o({}{})]\n{}", n1, a1, n2, a2, body);
            let grp = format!("#[o2o({}{}, {}{})]\n{}", n1, a1, n2, a2, body);
            let grp2 = format!("#[o2o({}{}, {}{})]\n{}", n2, a2, n1, a1, body);
            let sep2 = format!("#[o2o({}{})]\n#[o2o({}{})]\n{}", n2, a2, n1, a1, body);
            r.same(&sep, &grp);
            r.same(&sep2, &grp2);
        }
    }
    // member-level
    let member_instrs: Vec<(&str, &str)> = vec![("map", "(z)"), ("from", "(~.clone())"), ("into", "(z, ~.clone())"), ("try_map", "(z)"), ("try_map_ref", "(z)"), ("owned_into_existing", "(z)"),
        ("ghost", "({ 1 })"), ("ghost_owned", "({ 1 })"), ("ghost_ref", "({ 1 })"), ("child", "(c)"), ("parent", ""), ("parent", "(a, b)"), ("as_type", "(i64)"),
        ("repeat", "()"), ("skip_repeat", ""), ("stop_repeat", ""), ("ghosts", "(g: {1})"), ("where_clause", "(T: Clone)"), ("unknown_thing", "(1)")];
    let heads = ["#[map(B)]", "#[try_map(B, E)]", "#[into_existing(B)]", "#[map(B)]\n#[child_parents(c: C)]", "#[map(B)]\n#[o2o(allow_unknown)]"];
    for h in heads {
        for (n, a) in &member_instrs {
            let bare = format!("{}\nstruct A {{ #[{}{}] x: i32, y: i32 }}", h, n, a);
            let wrap = format!("{}\nstruct A {{ #[o2o({}{})] x: i32, y: i32 }}", h, n, a);
            if *n != "unknown_thing" && *n != "where_clause" { r.same(&bare, &wrap); }
            for (n2, a2) in &member_instrs {
                let sep = format!("{}\nstruct A {{ #[o2o({}{})] #[o2o({}{})] x: i32, y: i32 }}", h, n, a, n2, a2);
                let grp = format!("{}\nstruct A {{ #[o2o({}{}, {}{})] x: i32, y: i32 }}", h, n, a, n2, a2);
                r.same(&sep, &grp);
            }
        }
    }
    // enum members
    let variant_instrs: Vec<(&str, &str)> = vec![("map", "(W)"), ("literal", "(1)"), ("pattern", "(2..=3)"), ("type_hint", "(as ())"), ("type_hint", "(as {})"), ("ghost", "({ E::U })"), ("into", "(7)"), ("from", "(W)")];
    for h in ["#[map(F)]", "#[map(i32| _ => todo!())]", "#[map(F)]\n#[o2o(allow_unknown)]"] {
        for (n, a) in &variant_instrs {
            let bare = format!("{}\nenum E {{ #[{}{}] V(i32), U }}", h, n, a);
            let wrap = format!("{}\nenum E {{ #[o2o({}{})] V(i32), U }}", h, n, a);
            r.same(&bare, &wrap);
        }
    }
}

fn c12(r: &mut Rep) {
    let shortcuts: Vec<(&str, Vec<&str>)> = vec![
        ("map", vec!["from_owned", "from_ref", "owned_into", "ref_into"]), ("from", vec!["from_owned", "from_ref"]), ("into", vec!["owned_into", "ref_into"]),
        ("map_owned", vec!["from_owned", "owned_into"]), ("map_ref", vec!["from_ref", "ref_into"]), ("into_existing", vec!["owned_into_existing", "ref_into_existing"]),
        ("try_map", vec!["try_from_owned", "try_from_ref", "owned_try_into", "ref_try_into"]), ("try_from", vec!["try_from_owned", "try_from_ref"]), ("try_into", vec!["owned_try_into", "ref_try_into"]),
        ("try_map_owned", vec!["try_from_owned", "owned_try_into"]), ("try_map_ref", vec!["try_from_ref", "ref_try_into"]), ("try_into_existing", vec!["owned_try_into_existing", "ref_try_into_existing"]),
    ];
    let args = |n: &str| if n.contains("try") { "(B, E)" } else { "(B)" };
    let bodies = ["struct A { x: i32, y: i32 }", "struct A(i32, i32);", "enum A { V, W(i32), X { a: i32 } }", "struct A<'a, T> { x: &'a T }"];
    for (s, basics) in &shortcuts {
        for b in bodies {
            let a = format!("#[{}{}]\n{}", s, args(s), b);
            let w = format!("{}\n{}", basics.iter().map(|n| format!("#[{}{}]", n, args(n))).collect::<Vec<_>>().join("\n"), b);
            r.same_items(&a, &w);
        }
        // member level: shortcut on a field vs the basics written out with the same arguments
        if s.ends_with("existing") && s.starts_with("try") { continue; }
        for margs in ["(z)", "(~.clone())", "(z, ~.clone())", "(B| z)"] {
            for head in ["#[map(B)]\n#[into_existing(B)]", "#[try_map(B, E)]\n#[try_into_existing(B, E)]"] {
                let a = format!("{}\nstruct A {{ #[{}{}] x: i32, y: i32 }}", head, s, margs);
                let w = format!("{}\nstruct A {{ {} x: i32, y: i32 }}", head, basics.iter().map(|n| format!("#[{}{}]", n, margs)).collect::<Vec<_>>().join(" "));
                r.same_items(&a, &w);
            }
        }
    }
    // the same shortcuts in front of a child field inside #[parent(..)] (its own name list in the ParentChildField parser)
    for (s, basics) in &shortcuts {
        if s.starts_with("try") { continue; }
        for margs in ["(z)", "(~.clone())", "(z, ~.clone())"] {
            let head = format!("#[{}(B)]", s);
            let whead = basics.iter().map(|n| format!("#[{}(B)]", n)).collect::<Vec<_>>().join("\n");
            let a = format!("{}\nstruct A {{ y: i32, #[parent(q, [{}{}] x)] p: P }}", head, s, margs);
            let w = format!("{}\nstruct A {{ y: i32, #[parent(q, {} x)] p: P }}", whead, basics.iter().map(|n| format!("[{}{}]", n, margs)).collect::<Vec<_>>().join(" "));
            r.same_items(&a, &w);
            // and under the full set of conversions
            let a2 = format!("#[map(B)]\n#[into_existing(B)]\nstruct A {{ y: i32, #[parent(q, [{}{}] x)] p: P }}", s, margs);
            let w2 = format!("#[map(B)]\n#[into_existing(B)]\nstruct A {{ y: i32, #[parent(q, {} x)] p: P }}", basics.iter().map(|n| format!("[{}{}]", n, margs)).collect::<Vec<_>>().join(" "));
            r.same_items(&a2, &w2);
        }
    }
    for (s, basics) in [("ghost", ["ghost_owned", "ghost_ref"]), ("ghosts", ["ghosts_owned", "ghosts_ref"])] {
        if s == "ghost" {
            let a = format!("#[map(B)]\n#[into_existing(B)]\nstruct A {{ #[{}({{ 1 }})] x: i32, y: i32 }}", s);
            let w = format!("#[map(B)]\n#[into_existing(B)]\nstruct A {{ #[{}({{ 1 }})] #[{}({{ 1 }})] x: i32, y: i32 }}", basics[0], basics[1]);
            r.same_items(&a, &w);
        } else {
            for b in ["struct A { y: i32 }", "enum A { V }"] {
                let g = if b.starts_with("enum") { "(X: { A::V })" } else { "(g: { 1 })" };
                let a = format!("#[map(B)]\n#[{}{}]\n{}", s, g, b);
                let w = format!("#[map(B)]\n#[{}{}]\n#[{}{}]\n{}", basics[0], g, basics[1], g, b);
                r.same_items(&a, &w);
            }
        }
    }
}

fn c06(r: &mut Rep) {
    // (joint input, projection to A): every impl item of the projection must occur unchanged in the joint expansion
    let pairs: Vec<(&str, &str)> = vec![
        ("#[map(A)]\n#[map(B)]\nstruct S { #[map(A| a)] #[map(B| b)] x: i32, #[ghost(A| {1})] #[map(B| ~ + 1)] y: i32 }",
         "#[map(A)]\nstruct S { #[map(A| a)] x: i32, #[ghost(A| {1})] y: i32 }"),
        ("#[into(A)]\n#[into(B)]\n#[ghosts(A| g: {1})]\n#[ghosts(B| h: {2})]\nstruct S { x: i32 }", "#[into(A)]\n#[ghosts(A| g: {1})]\nstruct S { x: i32 }"),
        ("#[into(A)]\n#[into(B)]\n#[ghosts(A| c@g: {1})]\n#[child_parents(A| c: C)]\n#[child_parents(B| c: D)]\nstruct S { #[child(c)] x: i32 }",
         "#[into(A)]\n#[ghosts(A| c@g: {1})]\n#[child_parents(A| c: C)]\nstruct S { #[child(c)] x: i32 }"),
        ("#[map(A)]\n#[map(B)]\n#[where_clause(A| T: Clone)]\n#[where_clause(B| T: Copy)]\nstruct S<T> { x: T }", "#[map(A)]\n#[where_clause(A| T: Clone)]\nstruct S<T> { x: T }"),
        ("#[from(A)]\n#[from(B)]\n#[ghosts(A| X: { E::V })]\n#[ghosts(B| Y: { E::V })]\nenum E { V, #[ghost(B)] W }", "#[from(A)]\n#[ghosts(A| X: { E::V })]\nenum E { V, W }"),
        ("#[map(i32| _ => todo!())]\n#[map(u8| _ => todo!())]\nenum E { #[literal(1)] #[literal(u8| 2)] V, #[pattern(i32| 3..=4)] #[into(i32| 3)] #[literal(u8| 5)] W }",
         "#[map(i32| _ => todo!())]\nenum E { #[literal(1)] V, #[pattern(i32| 3..=4)] #[into(i32| 3)] W }"),
        ("#[into(A)]\n#[into(B)]\nstruct S { #[parent(A)] p: P, #[parent(B| a, b)] q: Q, x: i32 }", "#[into(A)]\nstruct S { #[parent(A)] p: P, q: Q, x: i32 }"),
        ("#[map(A)]\n#[map(B)]\nenum E { #[type_hint(A| as ())] #[type_hint(B| as {})] V { x: i32 } }", "#[map(A)]\nenum E { #[type_hint(A| as ())] V { x: i32 } }"),
    ];
    // systematic: two fields, each with an optional instruction dedicated to A, one dedicated to B and an optional default one;
    // type-level ghosts / where_clause / child_parents dedicated to each side.  Projection to A = the B-dedicated things removed.
    let forms = |t: &str, i: usize| -> Vec<String> { vec![String::new(), format!("#[map({}| y{})]", t, i), format!("#[map({}| ~.clone())]", t), format!("#[ghost({}| {{ 7 }})]", t), format!("#[child({}| c)]", t), format!("#[from({}| ~ + 1)] #[into({}| ~ - 1)]", t, t),
        format!("#[ghost_owned({}| {{ 8 }})]", t), format!("#[ghost_ref({}| {{ 9 }})]", t), format!("#[ghost_owned({}| {{ 8 }})] #[ghost_ref({}| {{ 9 }})]", t, t)] };
    let forms1 = |t: &str| -> Vec<String> { vec![String::new(), format!("#[map({}| y1)]", t), format!("#[parent({})]", t), format!("#[parent({}| q1, q2)]", t), format!("#[ghost_ref({}| {{ 9 }})]", t)] };
    let defaults = [String::new(), "#[map(~ * 2)]".to_string()];
    let mut gen: Vec<(String, String)> = vec![];
    for a0 in forms("A", 0) { for b0 in forms("B", 0) { for d0 in &defaults { for a1 in forms1("A").iter() { for b1 in forms1("B").iter() {
        for tl in 0..5 {
            let (ta, tb) = match tl { 0 => ("", ""), 3 => ("#[where_clause(A| T: Clone)]\n", "#[ghosts_owned(B| h: { 2 })]\n"), 4 => ("#[ghosts_owned(A| g: { 1 })]\n", "#[where_clause(B| T: Copy)]\n"), 1 => ("#[ghosts(A| g: { 1 })]\n#[where_clause(A| T: Clone)]\n", "#[ghosts(B| h: { 2 })]\n#[where_clause(B| T: Copy)]\n"), _ => ("#[ghosts(A| g: { 1 })]\n", "#[where_clause(T: Copy)]\n#[ghosts_ref(B| h: { 2 })]\n") };
            let cpa = if a0.contains("child") { "#[child_parents(A| c: C)]\n" } else { "" };
            let cpb = if b0.contains("child") { "#[child_parents(B| c: D)]\n" } else { "" };
            let joint = format!("#[map(A)]\n#[into_existing(A)]\n#[map(B)]\n#[try_into(B, E)]\n{}{}{}{}struct S<T> {{ {} {} {} x0: T, {} {} x1: i32 }}", ta, tb, cpa, cpb, a0, b0, d0, a1, b1);
            let keep_default_where = if tl == 2 { "#[where_clause(T: Copy)]\n" } else { "" };
            let proj = format!("#[map(A)]\n#[into_existing(A)]\n{}{}{}struct S<T> {{ {} {} x0: T, {} x1: i32 }}", ta, keep_default_where, cpa, a0, d0, a1);
            gen.push((joint.clone(), proj));
            if tl == 0 && d0.is_empty() {
                // A only receives (into kinds), B only gives (from kinds): a nested #[parent] level needs no type for A
                for pa in ["#[parent(A| [parent(q1)] inner, q2)]", "#[parent(A| q1, q2)]", "#[parent(A)]"] {
                    let j2 = format!("#[into(A)]\n#[into_existing(A)]\n#[from(B)]\n{}struct S<T> {{ {} {} x0: T, {} {} x1: i32 }}", cpa, a0, b0, pa, b1);
                    let pa2 = format!("#[into(A)]\n#[into_existing(A)]\n{}struct S<T> {{ {} x0: T, {} x1: i32 }}", cpa, a0, pa);
                    let pb2 = format!("#[from(B)]\nstruct S<T> {{ {} x0: T, {} x1: i32 }}", b0, b1);
                    gen.push((j2.clone(), pa2));
                    gen.push((j2, pb2));
                }
            }
            let keep_default_where_b = if tl == 2 { "#[where_clause(T: Copy)]\n" } else { "" };
            let proj_b = format!("#[map(B)]\n#[try_into(B, E)]\n{}{}{}struct S<T> {{ {} {} x0: T, {} x1: i32 }}", keep_default_where_b, tb.replace("#[where_clause(T: Copy)]\n", ""), cpb, b0, d0, b1);
            gen.push((joint, proj_b));
        }
    } } } } }
    let mut rejected_joint: std::collections::BTreeMap<String, Vec<(String, String)>> = std::collections::BTreeMap::new();
    let mut projections_of: std::collections::BTreeMap<String, usize> = std::collections::BTreeMap::new();
    for (j, _) in gen.iter() { *projections_of.entry(j.clone()).or_insert(0) += 1; }
    for (joint, proj) in gen.iter().map(|(a, b)| (a.as_str(), b.as_str())).chain(pairs.iter().map(|(a, b)| (*a, *b))) {
        r.cases += 1;
        match (expand(joint), expand(proj)) {
            (Ok(j), Ok(p)) => {
                r.both_ok += 1;
                let ji = items(&j);
                for it in items(&p) {
                    if !ji.contains(&it) {
                        r.fails.push((joint.replace('\n', " "), proj.replace('\n', " "), format!("item of the projection not in the joint expansion: {}", it)));
                        break;
                    }
                }
            }
            // a projection that is itself rejected is outside the statement
            (_, Err(_)) => {}
            // the projection is accepted but the joint input is not: remembered, and reported if the OTHER projection of the same
            // joint input is accepted too (then nothing but the presence of the other counterpart can have caused the rejection)
            (Err(e), Ok(_)) => { rejected_joint.entry(joint.to_string()).or_insert_with(Vec::new).push((proj.to_string(), e)); }
        }
    }
    for (joint, v) in rejected_joint {
        if v.len() == *projections_of.get(&joint).unwrap_or(&0) && v.len() >= 2 {
            r.fails.push((joint.replace('\n', " "), v[0].0.replace('\n', " "), format!("every projection to a single counterpart is accepted, the joint input is rejected: {}", v[0].1)));
        }
    }
}


// ---------------------------------------------------------------- c14: repeat / skip_repeat / stop_repeat written out
#[derive(Clone, Copy, PartialEq, Debug)]
enum Mk { None, Own, Rep, Skip, Stop, StopRep }
const MARKS: [Mk; 6] = [Mk::None, Mk::Own, Mk::Rep, Mk::Skip, Mk::Stop, Mk::StopRep];

fn thorough() -> bool { std::env::var("STANDIN_TIER").map(|v| v == "thorough").unwrap_or(false) }

fn sequences(n: usize) -> Vec<Vec<Mk>> {
    let mut out: Vec<Vec<Mk>> = vec![vec![]];
    for _ in 0..n {
        let mut nx = vec![];
        for s in &out { for m in MARKS { let mut t = s.clone(); t.push(m); nx.push(t); } }
        out = nx;
    }
    // a second `repeat` inside an open block without `stop_repeat` is a (documented) error: outside the statement
    out.into_iter().filter(|s| { let mut open = false; for m in s { match m { Mk::Rep => { if open { return false; } open = true; } Mk::Stop => open = false, Mk::StopRep => open = true, _ => {} } } true }).collect()
}

// member-level categories carried by the repeating member: (category name, instruction text with a block number)
fn member_instr(cat: &str, k: usize) -> String {
    match cat { "map" => format!("#[map(~.blk{}())]", k), "child" => format!("#[child(c{})]", k), "ghost" => format!("#[ghost({{ {} }})]", 100 + k), "type_hint" => "#[type_hint(as {})]".to_string(), _ => unreachable!() }
}

fn c14_members(r: &mut Rep) {
    let carriers: [&[&str]; 5] = [&["map"], &["child"], &["ghost"], &["map", "child"], &["child", "ghost"]];
    let sels: [&[&str]; 5] = [&[], &["map"], &["child"], &["ghost"], &["map", "ghost"]];   // [] = everything
    let head = "#[map(B)]\n#[into_existing(B)]\n#[child_parents(c0: C, c1: C, c2: C, c3: C, c4: C, c5: C)]";
    for seq in sequences(if thorough() { 6 } else { 5 }) {
        if !seq.iter().any(|m| matches!(m, Mk::Rep | Mk::StopRep)) { continue; }
        for carrier in carriers {
            for sel in sels {
                let own = if !carrier.contains(&"ghost") { "#[ghost({ 99 })]" } else { "#[map(~.own())]" };
                let own_is_map = own.starts_with("#[map");
                if own_is_map && carrier.contains(&"map") { continue; }
                let selected = |c: &str| sel.is_empty() || sel.contains(&c);
                let rep_txt = if sel.is_empty() { "#[o2o(repeat)]".to_string() } else { format!("#[o2o(repeat({}))]", sel.join(", ")) };
                let (mut a, mut b) = (String::new(), String::new());
                let mut active: Option<usize> = None;
                for (i, m) in seq.iter().enumerate() {
                    let all_carried: String = carrier.iter().map(|c| member_instr(c, i)).collect::<Vec<_>>().join(" ");
                    let received = |k: usize| carrier.iter().filter(|c| selected(c)).map(|c| member_instr(c, k)).collect::<Vec<_>>().join(" ");
                    match m {
                        Mk::None => { a += &format!("f{}: i32, ", i); b += &format!("{} f{}: i32, ", active.map(received).unwrap_or_default(), i); }
                        Mk::Own => { a += &format!("{} f{}: i32, ", own, i); b += &format!("{} {} f{}: i32, ", own, active.map(received).unwrap_or_default(), i); }
                        Mk::Skip => { a += &format!("#[o2o(skip_repeat)] {} f{}: i32, ", own, i); b += &format!("{} f{}: i32, ", own, i); }
                        Mk::Stop => { active = None; a += &format!("#[o2o(stop_repeat)] f{}: i32, ", i); b += &format!("f{}: i32, ", i); }
                        Mk::Rep => { active = Some(i); a += &format!("{} {} f{}: i32, ", rep_txt, all_carried, i); b += &format!("{} f{}: i32, ", all_carried, i); }
                        Mk::StopRep => { active = Some(i); a += &format!("#[o2o(stop_repeat)] {} {} f{}: i32, ", rep_txt, all_carried, i); b += &format!("{} f{}: i32, ", all_carried, i); }
                    }
                }
                r.same(&format!("{}\nstruct A {{ {} }}", head, a), &format!("{}\nstruct A {{ {} }}", head, b));
            }
        }
    }
}

// fields of enum variants: a block ends with the variant unless it permeates
fn c14_enum_fields(r: &mut Rep) {
    let shapes: [&[usize]; 4] = [&[2, 1, 1], &[1, 2, 1], &[1, 1, 2], &[4]];
    for seq in sequences(4) {
        if !seq.iter().any(|m| matches!(m, Mk::Rep | Mk::StopRep)) { continue; }
        for shape in shapes {
            for permeate in [false, true] {
                for sel in ["", "map", "ghost"] {
                    let rep_txt = match (permeate, sel) { (false, "") => "#[o2o(repeat)]".to_string(), (false, s) => format!("#[o2o(repeat({}))]", s), (true, "") => "#[o2o(repeat(permeate()))]".to_string(), (true, s) => format!("#[o2o(repeat(permeate(), {}))]", s) };
                    let carried = |k: usize| format!("#[from(~ * {})] #[into(~ / {})]", k + 2, k + 2);
                    let (mut a, mut b) = (String::new(), String::new());
                    let mut active: Option<usize> = None;
                    let mut i = 0;
                    for (vi, n) in shape.iter().enumerate() {
                        a += &format!("V{} {{ ", vi); b += &format!("V{} {{ ", vi);
                        for _ in 0..*n {
                            let recv = |k: usize| if sel == "" || sel == "map" { carried(k) } else { String::new() };
                            match seq[i] {
                                Mk::None => { a += &format!("f{}: i32, ", i); b += &format!("{} f{}: i32, ", active.map(recv).unwrap_or_default(), i); }
                                Mk::Own => { a += &format!("#[ghost({{ 99 }})] f{}: i32, ", i); b += &format!("#[ghost({{ 99 }})] {} f{}: i32, ", active.map(recv).unwrap_or_default(), i); }
                                Mk::Skip => { a += &format!("#[o2o(skip_repeat)] #[map(~.own())] f{}: i32, ", i); b += &format!("#[map(~.own())] f{}: i32, ", i); }
                                Mk::Stop => { active = None; a += &format!("#[o2o(stop_repeat)] f{}: i32, ", i); b += &format!("f{}: i32, ", i); }
                                Mk::Rep => { active = Some(i); a += &format!("{} {} f{}: i32, ", rep_txt, carried(i), i); b += &format!("{} f{}: i32, ", carried(i), i); }
                                Mk::StopRep => { active = Some(i); a += &format!("#[o2o(stop_repeat)] {} {} f{}: i32, ", rep_txt, carried(i), i); b += &format!("{} f{}: i32, ", carried(i), i); }
                            }
                            i += 1;
                        }
                        a += "}, "; b += "}, ";
                        if !permeate { active = None; }
                    }
                    // a non-permeating block that is still open at the end of its variant is closed there: a later `repeat` needs no stop
                    let ea = expand(&format!("#[map(F)]\nenum E {{ {} }}", a));
                    if !permeate { if let Err(e) = &ea { if e.contains("must be terminated") { continue; } } }
                    if permeate || true { r.same(&format!("#[map(F)]\nenum E {{ {} }}", a), &format!("#[map(F)]\nenum E {{ {} }}", b)); }
                }
            }
        }
    }
}

// variant-level repeat
fn c14_variants(r: &mut Rep) {
    for seq in sequences(if thorough() { 5 } else { 4 }) {
        if !seq.iter().any(|m| matches!(m, Mk::Rep | Mk::StopRep)) { continue; }
        for sel in ["", "type_hint", "ghost", "map"] {
            // fl: a field-level repeat block opened inside variant `fl.0` (permeating the later variants or not), or none:
            // the variant-level and the field-level blocks must not disturb each other
            let n = seq.len();
            let mut fls: Vec<Option<(usize, bool)>> = vec![None];
            for j in 0..n { fls.push(Some((j, false))); fls.push(Some((j, true))); }
            for fl in fls {
                let rep_txt = if sel.is_empty() { "#[o2o(repeat)]".to_string() } else { format!("#[o2o(repeat({}))]", sel) };
                let carried = "#[type_hint(as ())]";
                let recv = if sel == "" || sel == "type_hint" { carried } else { "" };
                let fcar = "#[from(~ * 2)] #[into(~ / 2)]";
                // payload of variant i in the repeat form (pa) and written out (pb)
                let payload = |i: usize| -> (String, String) {
                    match fl {
                        Some((j, perm)) if i == j => (format!("{{ {} {} a: i32, b: i32 }}", if perm { "#[o2o(repeat(permeate()))]" } else { "#[o2o(repeat)]" }, fcar), format!("{{ {} a: i32, {} b: i32 }}", fcar, fcar)),
                        Some((j, true)) if i > j => ("(i32)".to_string(), format!("({} i32)", fcar)),
                        _ => ("(i32)".to_string(), "(i32)".to_string()),
                    }
                };
                let (mut a, mut b) = (String::new(), String::new());
                let mut active = false;
                for (i, m) in seq.iter().enumerate() {
                    let (pa, pb) = payload(i);
                    match m {
                        Mk::None => { a += &format!("V{}{}, ", i, pa); b += &format!("{} V{}{}, ", if active { recv } else { "" }, i, pb); }
                        Mk::Own => { a += &format!("#[map(W{})] V{}{}, ", i, i, pa); b += &format!("#[map(W{})] {} V{}{}, ", i, if active { recv } else { "" }, i, pb); }
                        Mk::Skip => { a += &format!("#[o2o(skip_repeat)] #[map(W{})] V{}{}, ", i, i, pa); b += &format!("#[map(W{})] V{}{}, ", i, i, pb); }
                        Mk::Stop => { active = false; a += &format!("#[o2o(stop_repeat)] V{}{}, ", i, pa); b += &format!("V{}{}, ", i, pb); }
                        Mk::Rep => { active = true; a += &format!("{} {} V{}{}, ", rep_txt, carried, i, pa); b += &format!("{} V{}{}, ", carried, i, pb); }
                        Mk::StopRep => { active = true; a += &format!("#[o2o(stop_repeat)] {} {} V{}{}, ", rep_txt, carried, i, pa); b += &format!("{} V{}{}, ", carried, i, pb); }
                    }
                }
                r.same(&format!("#[map(F)]\nenum E {{ {} }}", a), &format!("#[map(F)]\nenum E {{ {} }}", b));
            }
        }
    }
}

// trait-level repeat: parameters copied onto later instructions of the same name
fn c14_traits(r: &mut Rep) {
    // (instruction name, other name that must not receive, body, the terminal parameter kind)
    let setups: [(&str, &str, &str, &str); 4] = [
        ("from_owned", "owned_into", "struct S { x: i32 }", "return"),
        ("owned_into", "from_owned", "struct S { x: i32 }", "update"),
        ("try_from_ref", "ref_try_into", "struct S { x: i32 }", "return"),
        ("from_owned", "owned_into", "enum S { #[literal(1)] V, #[literal(2)] W }", "default"),
    ];
    let sels: [&[&str]; 5] = [&[], &["vars"], &["update"], &["quick_return"], &["default_case"]];
    for seq in sequences(if thorough() { 5 } else { 4 }) {
        if !seq.iter().any(|m| matches!(m, Mk::Rep | Mk::StopRep)) { continue; }
        if seq.iter().any(|m| *m == Mk::Own) { continue; }   // an own value for a repeated parameter is a documented error
        for (name, other, body, term) in setups {
            for sel in sels {
                let fall = name.contains("try");
                let ty = |i: usize| if fall { format!("T{}, E", i) } else { format!("T{}", i) };
                let vars = |k: usize| format!("vars(v: {{ {} }})", k);
                let termtxt = |k: usize| match term { "return" => format!("return todo{}!()", k), "update" => format!("..upd{}()", k), _ => format!("_ => dflt{}!()", k) };
                let termcat = match term { "return" => "quick_return", "update" => "update", _ => "default_case" };
                let selected = |c: &str| sel.is_empty() || sel.contains(&c);
                let rep_txt = format!("repeat({})", sel.join(", "));
                let recv = |k: usize| { let mut v = vec![]; if selected("vars") { v.push(vars(k)); } if selected(termcat) { v.push(termtxt(k)); } v.join(", ") };
                let bar = |p: String| if p.is_empty() { String::new() } else { format!("| {}", p) };
                let (mut a, mut b) = (String::new(), String::new());
                let mut active: Option<usize> = None;
                for (i, m) in seq.iter().enumerate() {
                    if i == 2 { let o = format!("#[{}({})]\n", other, if other.contains("try") { "X, E" } else { "X" }); a += &o; b += &o; }
                    match m {
                        Mk::None | Mk::Own => { a += &format!("#[{}({})]\n", name, ty(i)); b += &format!("#[{}({}{})]\n", name, ty(i), bar(active.map(recv).unwrap_or_default())); }
                        Mk::Skip => { a += &format!("#[{}({}| skip_repeat, {})]\n", name, ty(i), termtxt(90 + i)); b += &format!("#[{}({}| {})]\n", name, ty(i), termtxt(90 + i)); }
                        Mk::Stop => { active = None; a += &format!("#[{}({}| stop_repeat)]\n", name, ty(i)); b += &format!("#[{}({})]\n", name, ty(i)); }
                        Mk::Rep => { active = Some(i); a += &format!("#[{}({}| {}, {}, {})]\n", name, ty(i), vars(i), rep_txt, termtxt(i)); b += &format!("#[{}({}| {}, {})]\n", name, ty(i), vars(i), termtxt(i)); }
                        Mk::StopRep => { active = Some(i); a += &format!("#[{}({}| stop_repeat, {}, {}, {})]\n", name, ty(i), vars(i), rep_txt, termtxt(i)); b += &format!("#[{}({}| {}, {})]\n", name, ty(i), vars(i), termtxt(i)); }
                    }
                }
                r.same(&format!("{}{}", a, body), &format!("{}{}", b, body));
            }
        }
    }
}

fn c14(r: &mut Rep) {
    c14_members(r);
    c14_enum_fields(r);
    c14_variants(r);
    c14_traits(r);
}


// ---------------------------------------------------------------- c05: shadowed or inapplicable member instructions never interfere
fn kinds_of(name: &str) -> (bool, Vec<&'static str>) {
    let fall = name.contains("try_");
    let n = name.replace("try_", "");
    let kinds: Vec<&'static str> = match n.as_str() {
        "owned_into" => vec!["OwnedInto"], "ref_into" => vec!["RefInto"], "into" => vec!["OwnedInto", "RefInto"],
        "from_owned" => vec!["FromOwned"], "from_ref" => vec!["FromRef"], "from" => vec!["FromOwned", "FromRef"],
        "map_owned" => vec!["FromOwned", "OwnedInto"], "map_ref" => vec!["FromRef", "RefInto"], "map" => vec!["FromOwned", "FromRef", "OwnedInto", "RefInto"],
        "owned_into_existing" => vec!["OwnedIntoExisting"], "ref_into_existing" => vec!["RefIntoExisting"], "into_existing" => vec!["OwnedIntoExisting", "RefIntoExisting"],
        _ => vec![],
    };
    (fall, kinds)
}

// at which step of the chain (0 = exact kind .. 3) would a member instruction `n2` serve the conversion (k, f); None = not applicable
fn chain_step(n2: &str, k: &str, f: bool) -> Option<usize> {
    let (f2, k2) = kinds_of(n2);
    let into_same = if k == "OwnedIntoExisting" { Some("OwnedInto") } else if k == "RefIntoExisting" { Some("RefInto") } else { None };
    if k2.contains(&k) && f2 == f { return Some(0); }
    if f && k2.contains(&k) && !f2 { return Some(1); }
    if let Some(i) = into_same {
        if k2.contains(&i) && f2 == f { return Some(2); }
        if f && k2.contains(&i) && !f2 { return Some(3); }
    }
    None
}

fn c05(r: &mut Rep) {
    // the 21 member-level mapping instructions (the fallible into_existing forms exist at type level only)
    let names = ["owned_into", "ref_into", "into", "from_owned", "from_ref", "from", "map_owned", "map_ref", "map", "owned_into_existing", "ref_into_existing", "into_existing",
        "owned_try_into", "ref_try_into", "try_into", "try_from_owned", "try_from_ref", "try_from", "try_map_owned", "try_map_ref", "try_map"];
    let convs = ["owned_into", "ref_into", "from_owned", "from_ref", "owned_into_existing", "ref_into_existing",
        "owned_try_into", "ref_try_into", "try_from_owned", "try_from_ref", "owned_try_into_existing", "ref_try_into_existing"];
    for t in convs {
        let (f, ks) = kinds_of(t);
        let k = ks[0];
        let owned = k.contains("Owned");
        let head = format!("#[{}(B{})]", t, if f { ", E" } else { "" });
        let ctxs: [(&str, bool); 3] = [("struct A { y: i32, @M@ x: i32 }", false), ("enum A { U, V { y: i32, @M@ x: i32 } }", true), ("struct A(i32, @M@ i32);", false)];
        for (wrap, is_enum) in ctxs {
            if is_enum && k.contains("Existing") { continue; }
            let tuple = wrap.contains("struct A(");
            let bargs = if tuple { "0, ~.x()" } else { "b, ~.x()" };
            let eargs = if tuple { "1, ~.y()" } else { "c, ~.y()" };
            // the instruction that takes effect: any member instruction applicable at step sb, default or dedicated
            for bname in names {
                let sb = match chain_step(bname, k, f) { Some(x) => x, None => continue };
                for base_ded in [false, true] {
                    let base = if base_ded { format!("#[{}(B| {})]", bname, bargs) } else { format!("#[{}({})]", bname, bargs) };
                    let alone = format!("{}\n{}", head, wrap.replace("@M@", &base));
                    let mut extras: Vec<String> = vec![];
                    for n2 in names {
                        match chain_step(n2, k, f) {
                            Some(s2) if s2 < sb => continue,                       // more specific: it would rightly win
                            Some(s2) if s2 == sb => {                              // same step: only a default one loses, and only to a dedicated base
                                if base_ded { extras.push(format!("#[{}({})]", n2, eargs)); }
                            }
                            _ => {                                                // a later step, or not applicable at all
                                extras.push(format!("#[{}({})]", n2, eargs));
                                extras.push(format!("#[{}(B| {})]", n2, eargs));
                            }
                        }
                    }
                    // a ghost of the other ownership does not apply
                    extras.push(if owned { "#[ghost_ref({ 9 })]".to_string() } else { "#[ghost_owned({ 9 })]".to_string() });
                    extras.push(if owned { "#[ghost_ref(B| { 9 })]".to_string() } else { "#[ghost_owned(B| { 9 })]".to_string() });
                    for e in extras {
                        for before in [false, true] {
                            let m = if before { format!("{} {}", e, base) } else { format!("{} {}", base, e) };
                            let both = format!("{}\n{}", head, wrap.replace("@M@", &m));
                            r.same(&alone, &both);
                        }
                    }
                }
            }
        }
    }
}

fn main() {
    panic::set_hook(Box::new(|_| {}));
    let suite = std::env::args().nth(1).unwrap_or_default();
    let mut r = Rep { cases: 0, both_ok: 0, fails: vec![] };
    match suite.as_str() {
        "c13" => c13(&mut r),
        "c12" => c12(&mut r),
        "c06" => c06(&mut r),
        "c14" => c14(&mut r),
        "c05" => c05(&mut r),
        "c14_members" => c14_members(&mut r),
        "c14_enum_fields" => c14_enum_fields(&mut r),
        "c14_variants" => c14_variants(&mut r),
        "c14_traits" => c14_traits(&mut r),
        _ => { eprintln!("usage: metamorphic c13|c12|c06"); std::process::exit(2); }
    }
    println!("{{\"suite\":\"{}\",\"cases\":{},\"both_expand\":{},\"failures\":{}}}", suite, r.cases, r.both_ok, r.fails.len());
    for (a, b, why) in r.fails.iter().take(10) {
        println!("FAIL\t{}\t{}\t{}", a, b, why.replace('\n', " ").chars().take(600).collect::<String>());
    }
}
