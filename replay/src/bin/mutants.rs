// C16 stand-in (TESTING, not proof): the derive never panics.  Inputs = accepted-looking derive inputs (hand-written seeds below
// plus every file given on the command line) and ALL their single-edit mutants inside attribute arguments:
//   * every contiguous run of 1..=3 token trees deleted, at every nesting depth of every #[..] attribute,
//   * every whole attribute deleted,
//   * the name of every type-level and member-level instruction replaced by each of the 24 instruction names,
//   * every literal replaced by literals of 8 other shapes, every plain argument identifier replaced by an integer literal.
// Each input is expanded under catch_unwind; a panic is reported with the input.  usage: mutants [files..]
// prints {"suite":"c16","cases":N,"seeds":S,"failures":M} then PANIC\t<input>\t<message> lines (all of them)
use proc_macro2::{Delimiter, Group, TokenStream, TokenTree};
use std::panic;

const SEEDS: &[&str] = &[
    "#[map(B)] #[into_existing(B)] struct A { x: i32, #[map(y)] z: i32, #[map(~.clone())] w: i32, #[ghost({ 7 })] g: i32 }",
    "#[map(B)] #[child_parents(c: C, c.d: D)] #[ghosts(c.d@g: { 1 }, k: { 2 })] struct A { x: i32, #[child(c)] y: i32, #[child(c.d)] #[map(q)] z: i32 }",
    "#[map(B)] #[into_existing(B)] struct A { x: i32, #[parent(p1, [parent(q1, [parent(r1)] deep: TD)] inner: TI, [map(m2)] p2)] base: TB, #[parent] bare: P }",
    "#[from_owned(CarDto)] struct Garage { slot: i8, #[parent([parent([parent(brand, year)] machine: Machine)] vehicle: Vehicle)] car: Car }",
    "#[try_map(B, E| vars(v: { 1 }), attribute(inline), ..Default::default())] #[try_into_existing(B, E| return todo!())] struct A { x: i32, #[try_map(y, ~.parse()?)] z: i32 }",
    "#[map(B as ())] #[into_existing(B as ())] struct A { x: i32, #[map(1)] y: i32, #[ghost({ 7 })] g: i32 }",
    "#[map(B as {})] #[owned_into_existing(B as {})] struct A(#[map(x)] i32, #[map(y, ~.clone())] i32, #[ghost({ 1 })] i32);",
    "#[map((i32, i32))] struct A(i32, i32);",
    "#[map(B)] #[where_clause(T: Clone)] #[where_clause(B| T: Copy)] struct A<'a, T> { x: &'a T }",
    "#[map(B)] enum A { V, #[map(Q)] W(i32, #[ghost({ 1 })] i32), X { #[map(b)] a: i32, #[map(~.clone())] c: i32 }, #[ghost({ B::V })] Y }",
    "#[map(B)] #[ghosts(Z: { A::V })] enum A { V, #[type_hint(as {})] W(#[map(a)] i32), #[type_hint(as ())] X { a: i32 }, #[type_hint(as Unit)] U(#[ghost({ 1 })] i32) }",
    "#[map(i32| _ => todo!())] #[map(u8| _ => todo!())] enum A { #[literal(1)] #[literal(u8| 2)] V, #[pattern(i32| 3..=4)] #[into(i32| { 3 })] #[literal(u8| 5)] W }",
    "#[try_map(String, E| _ => Err(E))] enum A { #[literal(\"a\")] V, #[pattern(_)] #[into({ \"b\".into() })] W }",
    "#[map(B)] struct A { #[o2o(repeat)] #[map(~.clone())] a: i32, b: i32, #[o2o(skip_repeat)] c: i32, #[o2o(stop_repeat)] d: i32, #[o2o(repeat(ghost))] #[ghost({ 1 })] e: i32, f: i32 }",
    "#[map(B)] enum A { V { #[o2o(repeat(permeate()))] #[from(~ * 2)] #[into(~ / 2)] a: i32, b: i32 }, W { c: i32 }, X { #[o2o(stop_repeat)] d: i32 } }",
    "#[from_owned(T1| repeat(), return Self(@.to_string()))] #[from_owned(T2)] #[from_owned(T3| skip_repeat, return Self(1))] #[from_owned(T4| stop_repeat, repeat(), vars(v: { 2 }), return Self(v))] #[from_owned(T5)] struct A(String);",
    "#[map(B)] #[map(C)] struct A { #[map(B| b)] #[map(C| c)] x: i32, #[ghost(B| { 1 })] #[map(C| ~ + 1)] y: i32, #[parent(B)] #[parent(C| q1, q2)] p: P, #[child(B| k)] #[as_type(C| i64)] z: i32 }",
    "#[map(B)] #[map(C)] #[child_parents(B| k: K)] #[ghosts_owned(B| g: { 1 })] #[ghosts_ref(C| h: { 2 })] struct A { #[child(B| k)] x: i32 }",
    "#[o2o(map(B), into_existing(B), allow_unknown)] struct A { #[o2o(map(y), ghost_ref({ 1 }))] x: i32, #[unknown(1)] z: i32 }",
    "#[owned_into(B)] #[child_parents(base: TO as (), base.1: TI)] #[ghosts(base.1@x: { 123 })] struct D { id: i32, #[child(base)] number: i16 }",
    "#[ref_into(T)] #[child_parents(1: Base as {}, 1.inner: TI)] #[ghosts(1.inner@0: { 123 })] struct D(i32, #[child(1)] #[ref_into(number)] i16);",
    "#[map(B)] struct A { #[as_type(i64)] x: i32, #[as_type(y, f32)] z: i32 }",
    "#[into(B as Unit)] #[from(B as Unit)] struct A { #[ghost({ 1 })] x: i32 }",
    "#[map(B)] struct A;",
];

const NAMES: &[&str] = &["owned_into", "ref_into", "into", "from_owned", "from_ref", "from", "map_owned", "map_ref", "map", "owned_into_existing", "ref_into_existing", "into_existing",
    "owned_try_into", "ref_try_into", "try_into", "try_from_owned", "try_from_ref", "try_from", "try_map_owned", "try_map_ref", "try_map", "owned_try_into_existing", "ref_try_into_existing", "try_into_existing"];

fn rebuild(g: &Group, ts: Vec<TokenTree>) -> TokenTree {
    let mut n = Group::new(g.delimiter(), ts.into_iter().collect());
    n.set_span(g.span());
    TokenTree::Group(n)
}

// all variants of `tts` with one edit applied somewhere inside an attribute (in_attr) - or, outside attributes, only descending
fn mutate(tts: &[TokenTree], in_attr: bool, out: &mut Vec<Vec<TokenTree>>) {
    let n = tts.len();
    if in_attr {
        let maxlen = if std::env::var("STANDIN_TIER").map(|v| v == "thorough").unwrap_or(false) { 6usize } else { 3usize };
        for len in 1..=maxlen {
            if len > n { break; }
            for i in 0..=(n - len) {
                let mut v = tts[..i].to_vec();
                v.extend_from_slice(&tts[i + len..]);
                out.push(v);
            }
        }
        // a literal replaced by literals of other shapes (suffixed, beyond u32, negative-looking, float, string, char)
        for i in 0..n {
            if let TokenTree::Literal(_) = &tts[i] {
                for alt in ["1u8", "0usize", "4294967296", "1.5", "\"s\"", "'c'", "0x10", "1_000"] {
                    let mut v = tts.to_vec();
                    let lit: TokenStream = alt.parse().unwrap();
                    v[i] = lit.into_iter().next().unwrap();
                    out.push(v);
                }
            }
        }
        // a plain argument identifier (not an instruction name) replaced by an integer literal, suffixed or not
        for i in 0..n {
            if let TokenTree::Ident(id) = &tts[i] {
                let followed_by_group = matches!(tts.get(i + 1), Some(TokenTree::Group(_)));
                if !NAMES.contains(&id.to_string().as_str()) && !followed_by_group {
                    for alt in ["0", "1u8", "4294967296"] {
                        let mut v = tts.to_vec();
                        let lit: TokenStream = alt.parse().unwrap();
                        v[i] = lit.into_iter().next().unwrap();
                        out.push(v);
                    }
                }
            }
        }
        for i in 0..n {
            if let TokenTree::Ident(id) = &tts[i] {
                if NAMES.contains(&id.to_string().as_str()) {
                    for nm in NAMES {
                        if *nm != id.to_string() {
                            let mut v = tts.to_vec();
                            v[i] = TokenTree::Ident(proc_macro2::Ident::new(nm, id.span()));
                            out.push(v);
                        }
                    }
                }
            }
        }
    }
    for i in 0..n {
        // whole attribute `# [..]` deleted
        if let (TokenTree::Punct(p), Some(TokenTree::Group(g))) = (&tts[i], tts.get(i + 1)) {
            if p.as_char() == '#' && g.delimiter() == Delimiter::Bracket {
                let mut v = tts[..i].to_vec();
                v.extend_from_slice(&tts[i + 2..]);
                out.push(v);
            }
        }
        if let TokenTree::Group(g) = &tts[i] {
            let is_attr = i > 0 && matches!(&tts[i - 1], TokenTree::Punct(p) if p.as_char() == '#') && g.delimiter() == Delimiter::Bracket;
            let inner: Vec<TokenTree> = g.stream().into_iter().collect();
            let mut sub = vec![];
            mutate(&inner, in_attr || is_attr, &mut sub);
            for s in sub {
                let mut v = tts.to_vec();
                v[i] = rebuild(g, s);
                out.push(v);
            }
        }
    }
}

// Some(("PANIC", message)) or Some(("MALFORMED", parser message)) or None
fn run(src: &str) -> Option<(&'static str, String)> {
    let node: syn::DeriveInput = match syn::parse_str(src) { Ok(n) => n, Err(_) => return None };
    match panic::catch_unwind(|| o2o_impl::expand::derive(&node).map(|t| t.to_string()).map_err(|_| ())) {
        Ok(Ok(out)) => match syn::parse_str::<syn::File>(&out) { Ok(_) => None, Err(e) => Some(("MALFORMED", e.to_string())) },
        Ok(Err(_)) => None,
        Err(p) => Some(("PANIC", if let Some(s) = p.downcast_ref::<String>() { s.clone() } else if let Some(s) = p.downcast_ref::<&str>() { s.to_string() } else { "?".into() })),
    }
}

fn main() {
    panic::set_hook(Box::new(|_| {}));
    let mut seeds: Vec<String> = SEEDS.iter().map(|s| s.to_string()).collect();
    for f in std::env::args().skip(1) { if let Ok(t) = std::fs::read_to_string(&f) { seeds.push(t.replace('\n', " ")); } }
    let mut cases = 0usize;
    let mut seen = std::collections::BTreeSet::new();
    let mut fails: Vec<(&'static str, String, String)> = vec![];
    for s in &seeds {
        let ts: TokenStream = match s.parse() { Ok(t) => t, Err(_) => continue };
        let tts: Vec<TokenTree> = ts.into_iter().collect();
        let mut all = vec![tts.clone()];
        mutate(&tts, false, &mut all);
        for m in all {
            let text = m.into_iter().collect::<TokenStream>().to_string();
            if !seen.insert(text.clone()) { continue; }
            cases += 1;
            if let Some((k, msg)) = run(&text) { fails.push((k, text, msg)); }
        }
    }
    println!("{{\"suite\":\"c16\",\"cases\":{},\"seeds\":{},\"failures\":{},\"malformed\":{}}}", cases, seeds.len(), fails.iter().filter(|f| f.0 == "PANIC").count(), fails.iter().filter(|f| f.0 == "MALFORMED").count());
    for (k, t, m) in fails { println!("{}\t{}\t{}", k, t, m.replace('\n', " ").chars().take(200).collect::<String>()); }
}
