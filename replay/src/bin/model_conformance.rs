// Conformance test of the TRUSTED token model (prelude/tokens.rs) against the real quote runtime:
// every `quote::__private::push_*` the model gives a contract to is called once and its output compared with the token the
// model says it appends; groups, idents, lifetimes and the `parse` fallback likewise.  (Tests the trusted base; proves nothing.)
use proc_macro2::{Delimiter, TokenStream};
use quote::__private as q;

macro_rules! puncts {
    ($($name:ident $s:literal)*) => {{
        let mut bad = vec![];
        let mut n = 0;
        $(
            let mut ts = TokenStream::new();
            q::$name(&mut ts);
            n += 1;
            let got: String = ts.to_string().split_whitespace().collect();
            if got != $s { bad.push(format!("{}: model says {:?}, real quote appends {:?}", stringify!($name), $s, got)); }
        )*
        (n, bad)
    }};
}

fn main() {
    let (mut n, mut bad) = puncts! {
        push_add "+" push_add_eq "+=" push_and "&" push_and_and "&&" push_and_eq "&=" push_at "@" push_bang "!"
        push_caret "^" push_caret_eq "^=" push_colon ":" push_colon2 "::" push_comma "," push_div "/" push_div_eq "/="
        push_dot "." push_dot2 ".." push_dot3 "..." push_dot_dot_eq "..=" push_eq "=" push_eq_eq "==" push_ge ">="
        push_gt ">" push_le "<=" push_lt "<" push_mul_eq "*=" push_ne "!=" push_or "|" push_or_eq "|=" push_or_or "||"
        push_pound "#" push_question "?" push_rarrow "->" push_larrow "<-" push_rem "%" push_rem_eq "%=" push_fat_arrow "=>"
        push_semi ";" push_shl "<<" push_shl_eq "<<=" push_shr ">>" push_shr_eq ">>=" push_star "*" push_sub "-" push_sub_eq "-="
        push_underscore "_"
    };
    // ident, lifetime, parse, group
    let mut ts = TokenStream::new();
    q::push_ident(&mut ts, "impl");
    q::push_lifetime(&mut ts, "'o2o");
    q::parse(&mut ts, "~");
    let mut inner = TokenStream::new();
    q::push_ident(&mut inner, "a");
    q::push_group(&mut ts, Delimiter::Brace, inner.clone());
    q::push_group(&mut ts, Delimiter::Parenthesis, inner.clone());
    q::push_group(&mut ts, Delimiter::Bracket, inner);
    n += 6;
    let got: String = ts.to_string().split_whitespace().collect::<Vec<_>>().join(" ");
    if got != "impl 'o2o ~ { a } (a) [a]" { bad.push(format!("ident/lifetime/parse/group: real quote gives {:?}", got)); }
    // the modelled repetition `#(#v)*`: elements' tokens in order
    let v = vec![quote::quote!(a ,), quote::quote!(b ,)];
    let rep = quote::quote!({ #(#v)* });
    n += 1;
    let got: String = rep.to_string().split_whitespace().collect::<Vec<_>>().join(" ");
    if got != "{ a , b , }" { bad.push(format!("repetition: real quote gives {:?}", got)); }
    // Option / reference interpolation: Some(t) -> t, None -> nothing
    let some: Option<TokenStream> = Some(quote::quote!(x));
    let none: Option<TokenStream> = None;
    let r = &some;
    let o = quote::quote!(#some #none #r);
    n += 1;
    let got: String = o.to_string().split_whitespace().collect::<Vec<_>>().join(" ");
    if got != "x x" { bad.push(format!("Option/ref interpolation: real quote gives {:?}", got)); }
    // format_ident!("f{}", n) and Index / Member printing
    let id = quote::format_ident!("f{}", 12usize);
    let m = syn::Member::Unnamed(syn::Index { index: 3, span: proc_macro2::Span::call_site() });
    let idm = quote::format_ident!("f{}", m);
    let o = quote::quote!(#id #m #idm);
    n += 1;
    let got: String = o.to_string().split_whitespace().collect::<Vec<_>>().join(" ");
    if got != "f12 3 f3" { bad.push(format!("format_ident / Index: real gives {:?}", got)); }
    println!("{{\"cases\":{},\"failures\":{}}}", n, bad.len());
    for b in bad { println!("FAIL\t{}", b); }
}
