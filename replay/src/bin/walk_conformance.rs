// Bounded conformance test of an ASSUMED contract (C10): `replace_tilde_or_at_in_expr` is outside the verifier's reach
// (its body pushes into a captured Vec from `for_each`), so every unit uses the uninterpreted spec function `walk`.
// This program checks, on the real code, what that contract is meant to say:
//     every `~` / `@` punct at every nesting depth is replaced by the given tokens, every other token is copied in order.
// The function is private; it is driven through the real derive with   #[from_owned(B)] struct A { #[from({ EXPR })] x: i32 }
// whose expansion (skeleton and line proved by Verus) is   .. A { x : walk(EXPR, value, value . x) , } ..
// Corpus: ALL token trees over the leaves {~ @ a 1 +} with sequences of length <= 2 per level, groups () [] {} nested to
// depth 2, plus hand-written cases (string literals containing ~ and @, lifetimes, joint punctuation, closures, turbofish).
use proc_macro2::{Delimiter, Group, TokenStream, TokenTree};
use quote::quote;
use std::panic;

fn reference(ts: TokenStream, at: &TokenStream, tilde: &TokenStream) -> TokenStream {
    let mut out = TokenStream::new();
    for t in ts {
        match t {
            TokenTree::Group(g) => {
                let inner = reference(g.stream(), at, tilde);
                out.extend(std::iter::once(TokenTree::Group(Group::new(g.delimiter(), inner))));
            }
            TokenTree::Punct(p) if p.as_char() == '~' => out.extend(tilde.clone()),
            TokenTree::Punct(p) if p.as_char() == '@' => out.extend(at.clone()),
            other => out.extend(std::iter::once(other)),
        }
    }
    out
}

fn norm(ts: &TokenStream) -> String {
    ts.to_string().split_whitespace().collect::<Vec<_>>().join(" ")
}

fn check(expr: &str, failures: &mut Vec<(String, String, String)>) {
    let src = format!("#[from_owned(B)] struct A {{ #[from({{ {} }})] x: i32 }}", expr);
    let node: syn::DeriveInput = match syn::parse_str(&src) {
        Ok(n) => n,
        Err(_) => return, // not a token stream rustc would hand to the derive
    };
    let e: TokenStream = expr.parse().unwrap();
    let at = quote!(value);
    let tilde = quote!(value.x);
    let walked = reference(e, &at, &tilde);
    let expected = quote!(impl ::core::convert::From<B> for A { fn from(value: B) -> A { A { x: #walked, } } });
    let got = panic::catch_unwind(|| o2o_impl::expand::derive(&node));
    let got_s = match got {
        Ok(Ok(ts)) => norm(&ts),
        Ok(Err(e)) => format!("ERR {}", e),
        Err(_) => "PANIC".to_string(),
    };
    if got_s != norm(&expected) {
        failures.push((expr.to_string(), norm(&expected), got_s));
    }
}

fn main() {
    panic::set_hook(Box::new(|_| {}));
    let leaves = ["~", "@", "a", "1", "+"];
    let delims = [("(", ")"), ("[", "]"), ("{", "}")];
    // level-1 groups: delimiters around leaf sequences of length 0..=2
    let mut seq1: Vec<String> = vec![String::new()];
    for a in leaves { seq1.push(a.to_string()); }
    for a in leaves { for b in leaves { seq1.push(format!("{} {}", a, b)); } }
    let mut g1: Vec<String> = vec![];
    for (o, c) in delims { for s in &seq1 { g1.push(format!("{} {} {}", o, s, c)); } }
    // level-2 groups: delimiters around one item (leaf or level-1 group), optionally followed by one leaf
    let mut items1: Vec<String> = leaves.iter().map(|s| s.to_string()).collect();
    items1.extend(g1.iter().cloned());
    let mut g2: Vec<String> = vec![];
    for (o, c) in delims {
        for it in &items1 {
            g2.push(format!("{} {} {}", o, it, c));
            for l in ["~", "@", "a"] { g2.push(format!("{} {} {} {}", o, it, l, c)); g2.push(format!("{} {} {} {}", o, l, it, c)); }
        }
    }
    let mut top: Vec<String> = items1.clone();
    top.extend(g2.iter().cloned());
    let mut n = 0usize;
    let mut failures = vec![];
    for a in &top {
        check(a, &mut failures);
        n += 1;
    }
    // pairs: every item next to every leaf-or-level-1 item (both orders)
    for a in &top {
        for b in &items1 {
            check(&format!("{} {}", a, b), &mut failures);
            check(&format!("{} {}", b, a), &mut failures);
            n += 2;
        }
    }
    for e in ["\"~@\"", "'~'", "f::<'a>(~)", "~ += 1", "~+=@", "|x| x + ~", "@.v.iter().map(|p| p.clone() + ~).collect::<Vec<_>>()", "vec![~.clone(), @.b]",
              "{ let p = [@.a, @.b]; p }", "Box::new([~.clone()])", "@.items[@.idx]", "!~", "-~", "&~", "*@", "~..=@", "~ as i64", "m!(~ ; @)", "r#\"~\"#", "b'@'", "~ . 0", "a::<{ ~ }>()"] {
        check(e, &mut failures);
        n += 1;
    }
    println!("{{\"cases\":{},\"failures\":{}}}", n, failures.len());
    for (e, want, got) in failures.iter().take(10) {
        println!("FAIL\t{}\t{}\t{}", e, want, got);
    }
}
