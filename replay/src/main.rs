// o2o-replay <file>...   each file: one derive input (a struct or enum item with o2o attributes)
// prints, per file, one JSON line: {"file":..,"outcome":"ok"|"err"|"panic"|"parse-error","text":..,"items_parse":bool}
use std::panic;

fn esc(s: &str) -> String {
    let mut o = String::new();
    for c in s.chars() {
        match c {
            '"' => o.push_str("\\\""),
            '\\' => o.push_str("\\\\"),
            '\n' => o.push_str("\\n"),
            '\t' => o.push_str("\\t"),
            '\r' => o.push_str("\\r"),
            c if (c as u32) < 0x20 => o.push_str(&format!("\\u{:04x}", c as u32)),
            c => o.push(c),
        }
    }
    o
}

fn main() {
    panic::set_hook(Box::new(|_| {}));
    for path in std::env::args().skip(1) {
        let text = std::fs::read_to_string(&path).unwrap_or_default();
        let node: syn::DeriveInput = match syn::parse_str(&text) {
            Ok(n) => n,
            Err(e) => {
                println!("{{\"file\":\"{}\",\"outcome\":\"parse-error\",\"text\":\"{}\",\"items_parse\":false}}", esc(&path), esc(&e.to_string()));
                continue;
            }
        };
        let res = panic::catch_unwind(|| o2o_impl::expand::derive(&node));
        match res {
            Ok(Ok(ts)) => {
                let s = ts.to_string();
                let parses = syn::parse2::<syn::File>(ts).is_ok();
                println!("{{\"file\":\"{}\",\"outcome\":\"ok\",\"text\":\"{}\",\"items_parse\":{}}}", esc(&path), esc(&s), parses);
            }
            Ok(Err(e)) => {
                let msgs: Vec<String> = e.into_iter().map(|x| x.to_string()).collect();
                println!("{{\"file\":\"{}\",\"outcome\":\"err\",\"text\":\"{}\",\"items_parse\":false}}", esc(&path), esc(&msgs.join(" || ")));
            }
            Err(p) => {
                let m = if let Some(s) = p.downcast_ref::<String>() { s.clone() } else if let Some(s) = p.downcast_ref::<&str>() { s.to_string() } else { "?".into() };
                println!("{{\"file\":\"{}\",\"outcome\":\"panic\",\"text\":\"{}\",\"items_parse\":false}}", esc(&path), esc(&m));
            }
        }
    }
}
