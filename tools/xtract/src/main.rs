// xtract: byte-exact locations of items / fn signatures / closures in Rust sources.
// Usage: xtract <file.rs>...   -> JSON on stdout
// Never pretty-prints source; only reports offsets so that the assembler can slice the real bytes.
use proc_macro2::{Span, TokenStream, TokenTree};
use quote::ToTokens;
use std::fmt::Write as _;
use syn::spanned::Spanned;
use syn::visit::{self, Visit};

struct Src {
    text: String,
    line_starts: Vec<usize>,
}

impl Src {
    fn new(text: String) -> Self {
        let mut line_starts = vec![0usize];
        for (i, b) in text.bytes().enumerate() {
            if b == b'\n' {
                line_starts.push(i + 1);
            }
        }
        Src { text, line_starts }
    }
    fn off(&self, lc: proc_macro2::LineColumn) -> usize {
        let ls = self.line_starts[lc.line - 1];
        let line = &self.text[ls..];
        let mut byte = 0;
        for (n, (i, _c)) in line.char_indices().enumerate() {
            if n == lc.column {
                return ls + i;
            }
            byte = i;
        }
        let _ = byte;
        // column at end of text
        ls + line.chars().take(lc.column).map(|c| c.len_utf8()).sum::<usize>()
    }
    fn start(&self, s: Span) -> usize {
        self.off(s.start())
    }
    fn end(&self, s: Span) -> usize {
        self.off(s.end())
    }
}

fn esc(s: &str) -> String {
    let mut o = String::new();
    for c in s.chars() {
        match c {
            '"' => o.push_str("\\\""),
            '\\' => o.push_str("\\\\"),
            '\n' => o.push_str("\\n"),
            '\t' => o.push_str("\\t"),
            '\r' => o.push_str("\\r"),
            c if (c as u32) < 0x20 => write!(o, "\\u{:04x}", c as u32).unwrap(),
            c => o.push(c),
        }
    }
    o
}

fn norm(ts: TokenStream) -> String {
    ts.to_string().chars().filter(|c| !c.is_whitespace()).collect()
}

struct ClosureInfo {
    start: usize,
    header_end: usize,
    body_start: usize,
    body_end: usize,
    body_is_block: bool,
    let_name: Option<String>,
    inputs: String,
    line: usize,
}

struct PanicSite {
    what: String,
    line: usize,
}

struct FnVisitor<'s> {
    src: &'s Src,
    closures: Vec<ClosureInfo>,
    pending_let: Option<String>,
    panics: Vec<PanicSite>,
    loops: Vec<(usize, String, usize)>,
    calls: Vec<String>,
}

impl<'ast, 's> Visit<'ast> for FnVisitor<'s> {
    fn visit_local(&mut self, l: &'ast syn::Local) {
        // closure that is the direct initialiser of `let name = |..| ..`
        let name = match &l.pat {
            syn::Pat::Ident(p) => Some(p.ident.to_string()),
            syn::Pat::Type(t) => match &*t.pat {
                syn::Pat::Ident(p) => Some(p.ident.to_string()),
                _ => None,
            },
            _ => None,
        };
        if let Some(init) = &l.init {
            if let syn::Expr::Closure(_) = &*init.expr {
                self.pending_let = name;
            }
        }
        visit::visit_local(self, l);
        self.pending_let = None;
    }
    fn visit_expr_closure(&mut self, c: &'ast syn::ExprClosure) {
        let start = self.src.start(c.span());
        let header_end = match &c.output {
            syn::ReturnType::Default => self.src.end(c.or2_token.span()),
            syn::ReturnType::Type(_, ty) => self.src.end(ty.span()),
        };
        let body_start = self.src.start(c.body.span());
        let body_end = self.src.end(c.body.span());
        let body_is_block = matches!(&*c.body, syn::Expr::Block(_));
        let inputs = c.inputs.to_token_stream().to_string();
        let let_name = self.pending_let.take();
        self.closures.push(ClosureInfo {
            start,
            header_end,
            body_start,
            body_end,
            body_is_block,
            let_name,
            inputs,
            line: c.span().start().line,
        });
        visit::visit_expr_closure(self, c);
    }
    fn visit_macro(&mut self, m: &'ast syn::Macro) {
        let name = m.path.segments.last().map(|s| s.ident.to_string()).unwrap_or_default();
        if matches!(name.as_str(), "unreachable" | "todo" | "panic" | "unimplemented" | "assert" | "assert_eq") {
            self.panics.push(PanicSite { what: format!("{}!", name), line: m.span().start().line });
        }
        scan_tokens_for_panics(m.tokens.clone(), &mut self.panics);
        visit::visit_macro(self, m);
    }
    fn visit_expr_call(&mut self, e: &'ast syn::ExprCall) {
        if let syn::Expr::Path(p) = &*e.func {
            if let Some(seg) = p.path.segments.last() {
                self.calls.push(seg.ident.to_string());
            }
        }
        visit::visit_expr_call(self, e);
    }
    fn visit_expr_method_call(&mut self, e: &'ast syn::ExprMethodCall) {
        let n = e.method.to_string();
        self.calls.push(n.clone());
        if n == "unwrap" || n == "expect" {
            self.panics.push(PanicSite { what: format!(".{}()", n), line: e.method.span().start().line });
        }
        visit::visit_expr_method_call(self, e);
    }
    fn visit_expr_index(&mut self, e: &'ast syn::ExprIndex) {
        self.panics.push(PanicSite { what: "index[]".into(), line: e.bracket_token.span.open().start().line });
        visit::visit_expr_index(self, e);
    }
    fn visit_expr_while(&mut self, e: &'ast syn::ExprWhile) {
        self.loops.push((e.span().start().line, "while".into(), self.src.start(e.body.brace_token.span.open())));
        visit::visit_expr_while(self, e);
    }
    fn visit_expr_for_loop(&mut self, e: &'ast syn::ExprForLoop) {
        self.loops.push((e.span().start().line, "for".into(), self.src.start(e.body.brace_token.span.open())));
        visit::visit_expr_for_loop(self, e);
    }
    fn visit_expr_loop(&mut self, e: &'ast syn::ExprLoop) {
        self.loops.push((e.span().start().line, "loop".into(), self.src.start(e.body.brace_token.span.open())));
        visit::visit_expr_loop(self, e);
    }
}

fn scan_tokens_for_panics(ts: TokenStream, out: &mut Vec<PanicSite>) {
    let v: Vec<TokenTree> = ts.into_iter().collect();
    for (i, t) in v.iter().enumerate() {
        match t {
            TokenTree::Ident(id) => {
                let n = id.to_string();
                if matches!(n.as_str(), "unreachable" | "todo" | "panic" | "unimplemented") {
                    if let Some(TokenTree::Punct(p)) = v.get(i + 1) {
                        if p.as_char() == '!' {
                            out.push(PanicSite { what: format!("{}!", n), line: id.span().start().line });
                        }
                    }
                }
                if n == "unwrap" || n == "expect" {
                    if i > 0 {
                        if let TokenTree::Punct(p) = &v[i - 1] {
                            if p.as_char() == '.' {
                                out.push(PanicSite { what: format!(".{}()", n), line: id.span().start().line });
                            }
                        }
                    }
                }
            }
            TokenTree::Group(g) => scan_tokens_for_panics(g.stream(), out),
            _ => {}
        }
    }
}

struct Out {
    s: String,
    first: bool,
}

impl Out {
    fn item_begin(&mut self) {
        if !self.first {
            self.s.push_str(",\n");
        }
        self.first = false;
    }
}

fn attrs_json(src: &Src, attrs: &[syn::Attribute]) -> String {
    let mut s = String::from("[");
    for (i, a) in attrs.iter().enumerate() {
        if i > 0 {
            s.push(',');
        }
        write!(
            s,
            "{{\"start\":{},\"end\":{},\"path\":\"{}\",\"text\":\"{}\"}}",
            src.start(a.span()),
            src.end(a.span()),
            esc(&norm(a.path().to_token_stream())),
            esc(&src.text[src.start(a.span())..src.end(a.span())])
        )
        .unwrap();
    }
    s.push(']');
    s
}

fn vis_json(src: &Src, vis: &syn::Visibility) -> String {
    match vis {
        syn::Visibility::Inherited => "null".into(),
        v => format!("{{\"start\":{},\"end\":{}}}", src.start(v.span()), src.end(v.span())),
    }
}

#[allow(clippy::too_many_arguments)]
fn emit_fn(
    out: &mut Out,
    src: &Src,
    file: &str,
    name: &str,
    kind: &str,
    attrs: &[syn::Attribute],
    vis: &syn::Visibility,
    sig: &syn::Signature,
    block: &syn::Block,
    whole: Span,
    impl_header: Option<(usize, usize)>,
    impl_extra: &str,
) {
    let mut v = FnVisitor { src, closures: vec![], pending_let: None, panics: vec![], loops: vec![], calls: vec![] };
    v.visit_block(block);
    out.item_begin();
    let start = src.start(whole);
    let end = src.end(whole);
    let (ret_start, ret_end, ret_ty) = match &sig.output {
        syn::ReturnType::Default => (None, None, None),
        syn::ReturnType::Type(arrow, ty) => (
            Some(src.start(arrow.span())),
            Some(src.end(ty.span())),
            Some(src.text[src.start(ty.span())..src.end(ty.span())].to_string()),
        ),
    };
    let sig_end = match &sig.generics.where_clause {
        Some(w) => src.end(w.span()),
        None => match ret_end {
            Some(e) => e,
            None => src.end(sig.paren_token.span.close()),
        },
    };
    let body_open = src.start(block.brace_token.span.open());
    let body_close = src.end(block.brace_token.span.close());
    write!(
        out.s,
        "{{\"file\":\"{}\",\"kind\":\"{}\",\"name\":\"{}\",\"start\":{},\"end\":{},\"line_start\":{},\"line_end\":{},\"attrs\":{},\"vis\":{},",
        esc(file),
        kind,
        esc(name),
        start,
        end,
        whole.start().line,
        whole.end().line,
        attrs_json(src, attrs),
        vis_json(src, vis)
    )
    .unwrap();
    write!(
        out.s,
        "\"ret_start\":{},\"ret_end\":{},\"ret_ty\":{},\"sig_end\":{},\"body_open\":{},\"body_close\":{},\"fn_token\":{},",
        ret_start.map_or("null".into(), |x| x.to_string()),
        ret_end.map_or("null".into(), |x| x.to_string()),
        ret_ty.map_or("null".into(), |x| format!("\"{}\"", esc(&x))),
        sig_end,
        body_open,
        body_close,
        src.start(sig.fn_token.span())
    )
    .unwrap();
    match impl_header {
        Some((a, b)) => write!(out.s, "\"impl_header\":\"{}\",\"impl_extra\":\"{}\",", esc(&src.text[a..b]), esc(impl_extra)).unwrap(),
        None => out.s.push_str("\"impl_header\":null,\"impl_extra\":\"\","),
    }
    out.s.push_str("\"closures\":[");
    for (i, c) in v.closures.iter().enumerate() {
        if i > 0 {
            out.s.push(',');
        }
        write!(
            out.s,
            "{{\"ord\":{},\"start\":{},\"header_end\":{},\"body_start\":{},\"body_end\":{},\"body_is_block\":{},\"let_name\":{},\"inputs\":\"{}\",\"line\":{}}}",
            i,
            c.start,
            c.header_end,
            c.body_start,
            c.body_end,
            c.body_is_block,
            c.let_name.as_ref().map_or("null".into(), |x| format!("\"{}\"", esc(x))),
            esc(&c.inputs),
            c.line
        )
        .unwrap();
    }
    out.s.push_str("],\"panic_sites\":[");
    for (i, p) in v.panics.iter().enumerate() {
        if i > 0 {
            out.s.push(',');
        }
        write!(out.s, "{{\"what\":\"{}\",\"line\":{}}}", esc(&p.what), p.line).unwrap();
    }
    out.s.push_str("],\"calls\":[");
    let mut cs = v.calls.clone();
    cs.sort();
    cs.dedup();
    for (i, c) in cs.iter().enumerate() {
        if i > 0 {
            out.s.push(',');
        }
        write!(out.s, "\"{}\"", esc(c)).unwrap();
    }
    out.s.push_str("],\"loops\":[");
    for (i, p) in v.loops.iter().enumerate() {
        if i > 0 {
            out.s.push(',');
        }
        write!(out.s, "{{\"what\":\"{}\",\"line\":{},\"body_open\":{}}}", esc(&p.1), p.0, p.2).unwrap();
    }
    out.s.push_str("]}");
}

fn emit_plain(out: &mut Out, src: &Src, file: &str, name: &str, kind: &str, attrs: &[syn::Attribute], vis: &syn::Visibility, whole: Span) {
    out.item_begin();
    write!(
        out.s,
        "{{\"file\":\"{}\",\"kind\":\"{}\",\"name\":\"{}\",\"start\":{},\"end\":{},\"line_start\":{},\"line_end\":{},\"attrs\":{},\"vis\":{}}}",
        esc(file),
        kind,
        esc(name),
        src.start(whole),
        src.end(whole),
        whole.start().line,
        whole.end().line,
        attrs_json(src, attrs),
        vis_json(src, vis)
    )
    .unwrap();
}

fn self_ty_name(ty: &syn::Type) -> String {
    match ty {
        syn::Type::Path(p) => p.path.segments.last().map(|s| s.ident.to_string()).unwrap_or_default(),
        t => norm(t.to_token_stream()),
    }
}

fn walk_items(out: &mut Out, src: &Src, file: &str, items: &[syn::Item], prefix: &str) {
    for it in items {
        match it {
            syn::Item::Fn(f) => {
                let name = format!("{}{}", prefix, f.sig.ident);
                emit_fn(out, src, file, &name, "fn", &f.attrs, &f.vis, &f.sig, &f.block, f.span(), None, "");
            }
            syn::Item::Struct(s) => emit_plain(out, src, file, &format!("{}{}", prefix, s.ident), "struct", &s.attrs, &s.vis, s.span()),
            syn::Item::Enum(s) => emit_plain(out, src, file, &format!("{}{}", prefix, s.ident), "enum", &s.attrs, &s.vis, s.span()),
            syn::Item::Type(s) => emit_plain(out, src, file, &format!("{}{}", prefix, s.ident), "type", &s.attrs, &s.vis, s.span()),
            syn::Item::Const(s) => emit_plain(out, src, file, &format!("{}{}", prefix, s.ident), "const", &s.attrs, &s.vis, s.span()),
            syn::Item::Impl(im) => {
                let self_name = self_ty_name(&im.self_ty);
                let impl_name = match &im.trait_ {
                    Some((_, path, _)) => format!("impl {} for {}", norm(path.to_token_stream()), norm(im.self_ty.to_token_stream())),
                    None => format!("impl {}", norm(im.self_ty.to_token_stream())),
                };
                emit_plain(out, src, file, &format!("{}{}", prefix, impl_name), "impl", &im.attrs, &syn::Visibility::Inherited, im.span());
                let hdr = (src.start(im.span()), src.start(im.brace_token.span.open()));
                let mut extra = String::new();
                for ii in &im.items {
                    match ii {
                        syn::ImplItem::Fn(_) => {}
                        other => {
                            extra.push_str(&src.text[src.start(other.span())..src.end(other.span())]);
                            extra.push('\n');
                        }
                    }
                }
                for ii in &im.items {
                    if let syn::ImplItem::Fn(m) = ii {
                        let name = match &im.trait_ {
                            Some((_, path, _)) => format!("{}<{} as {}>::{}", prefix, norm(im.self_ty.to_token_stream()), norm(path.to_token_stream()), m.sig.ident),
                            None => format!("{}{}::{}", prefix, self_name, m.sig.ident),
                        };
                        emit_fn(out, src, file, &name, "method", &m.attrs, &m.vis, &m.sig, &m.block, m.span(), Some(hdr), &extra);
                    }
                }
            }
            syn::Item::Mod(m) => {
                if let Some((_, items)) = &m.content {
                    walk_items(out, src, file, items, &format!("{}{}::", prefix, m.ident));
                }
            }
            _ => {}
        }
    }
}

// every quote!/parse_quote!/format_ident!/quote_spanned! invocation anywhere in the file, with the literal
// identifiers (not preceded by '#') and literal tokens it contains
fn scan_templates(ts: TokenStream, out: &mut Vec<(String, usize, Vec<String>, Vec<String>)>) {
    let v: Vec<TokenTree> = ts.into_iter().collect();
    let mut i = 0;
    while i < v.len() {
        if let TokenTree::Ident(id) = &v[i] {
            let n = id.to_string();
            if matches!(n.as_str(), "quote" | "parse_quote" | "format_ident" | "quote_spanned" | "parse_quote_spanned") {
                if let (Some(TokenTree::Punct(p)), Some(TokenTree::Group(g))) = (v.get(i + 1), v.get(i + 2)) {
                    if p.as_char() == '!' {
                        let mut idents = vec![];
                        let mut lits = vec![];
                        collect_template(g.stream(), &mut idents, &mut lits, &n);
                        out.push((n.clone(), id.span().start().line, idents, lits));
                    }
                }
            }
        }
        if let TokenTree::Group(g) = &v[i] {
            scan_templates(g.stream(), out);
        }
        i += 1;
    }
}

fn collect_template(ts: TokenStream, idents: &mut Vec<String>, lits: &mut Vec<String>, mac: &str) {
    let v: Vec<TokenTree> = ts.into_iter().collect();
    let mut i = 0;
    while i < v.len() {
        match &v[i] {
            TokenTree::Punct(p) if p.as_char() == '#' => {
                // interpolation: #ident or #( ... ) sep *
                match v.get(i + 1) {
                    Some(TokenTree::Ident(_)) => {
                        i += 2;
                        continue;
                    }
                    Some(TokenTree::Group(g)) => {
                        collect_template(g.stream(), idents, lits, mac);
                        i += 2;
                        continue;
                    }
                    _ => {}
                }
            }
            TokenTree::Ident(id) => {
                if mac == "format_ident" {
                    // arguments of format_ident! are expressions, not template text
                } else {
                    idents.push(id.to_string());
                }
            }
            TokenTree::Literal(l) => lits.push(l.to_string()),
            TokenTree::Group(g) => collect_template(g.stream(), idents, lits, mac),
            _ => {}
        }
        i += 1;
    }
}

fn main() {
    let args: Vec<String> = std::env::args().skip(1).collect();
    let mut out = Out { s: String::from("{\"items\":[\n"), first: true };
    let mut templates = String::from("[");
    let mut tfirst = true;
    for path in &args {
        let text = match std::fs::read_to_string(path) {
            Ok(t) => t,
            Err(e) => {
                eprintln!("xtract: cannot read {}: {}", path, e);
                std::process::exit(2);
            }
        };
        let src = Src::new(text);
        let file = match syn::parse_file(&src.text) {
            Ok(f) => f,
            Err(e) => {
                eprintln!("xtract: cannot parse {}: {}", path, e);
                std::process::exit(2);
            }
        };
        walk_items(&mut out, &src, path, &file.items, "");
        let ts: TokenStream = match src.text.parse() {
            Ok(t) => t,
            Err(e) => {
                eprintln!("xtract: cannot tokenize {}: {}", path, e);
                std::process::exit(2);
            }
        };
        let mut tv = vec![];
        scan_templates(ts, &mut tv);
        for (mac, line, idents, lits) in tv {
            if !tfirst {
                templates.push_str(",\n");
            }
            tfirst = false;
            write!(
                templates,
                "{{\"file\":\"{}\",\"macro\":\"{}\",\"line\":{},\"idents\":[{}],\"lits\":[{}]}}",
                esc(path),
                mac,
                line,
                idents.iter().map(|x| format!("\"{}\"", esc(x))).collect::<Vec<_>>().join(","),
                lits.iter().map(|x| format!("\"{}\"", esc(x))).collect::<Vec<_>>().join(",")
            )
            .unwrap();
        }
    }
    templates.push(']');
    out.s.push_str("\n],\n\"templates\":");
    out.s.push_str(&templates);
    out.s.push_str("}\n");
    print!("{}", out.s);
}
