#![allow(unused)]
use vstd::prelude::*;
    #[macro_export]
    macro_rules! quote {
        () => {
            $crate::__private::TokenStream::new()
        };

        // Special case rule for a single tt, for performance.
        ($tt:tt) => {{
            let mut _s = $crate::__private::TokenStream::new();
            $crate::quote_token!{$tt _s}
            _s
        }};

        // Special case rules for two tts, for performance.
        (# $var:ident) => {{
            let mut _s = $crate::__private::TokenStream::new();
            $crate::ToTokens::to_tokens(&$var, &mut _s);
            _s
        }};
        ($tt1:tt $tt2:tt) => {{
            let mut _s = $crate::__private::TokenStream::new();
            $crate::quote_token!{$tt1 _s}
            $crate::quote_token!{$tt2 _s}
            _s
        }};

        // Rule for any other number of tokens.
        ($($tt:tt)*) => {{
            let mut _s = $crate::__private::TokenStream::new();
            $crate::quote_each_token!{_s $($tt)*}
            _s
        }};
    }

#[macro_export]
macro_rules! quote_spanned {
    ($span:expr=> $($tt:tt)*) => {{
        let _span: $crate::__private::Span = $crate::__private::get_span($span).__into_span();
        $crate::quote_spanned_with_expanded_span!{_span $($tt)*}
    }};
}

// We want to ensure that `get_span` only gets called for the actual user
// invocation and not for recursive calls from groups, which will call this
// inner macro instead.
#[macro_export]
#[doc(hidden)]
macro_rules! quote_spanned_with_expanded_span {
    ($span:ident) => {
        $crate::__private::TokenStream::new()
    };

    // Special case rule for a single tt, for performance.
    ($span:ident $tt:tt) => {
        let mut _s = $crate::__private::TokenStream::new();
        $crate::quote_token_spanned!{$tt _s $span}
        _s
    };

    // Special case rules for two tts, for performance.
    ($span:ident # $var:ident) => {
        let mut _s = $crate::__private::TokenStream::new();
        $crate::ToTokens::to_tokens(&$var, &mut _s);
        _s
    };
    ($span:ident $tt1:tt $tt2:tt) => {
        let mut _s = $crate::__private::TokenStream::new();
        $crate::quote_token_spanned!{$tt1 _s $span}
        $crate::quote_token_spanned!{$tt2 _s $span}
        _s
    };

    // Rule for any other number of tokens.
    ($span:ident $($tt:tt)*) => {
        let mut _s = $crate::__private::TokenStream::new();
        $crate::quote_each_token_spanned!{_s $span $($tt)*}
        _s
    };
}

// Extract the names of all #metavariables and pass them to the $call macro.
//
// in:   pounded_var_names!(then!(...) a #b c #( #d )* #e)
// out:  then!(... b);
//       then!(... d);
//       then!(... e);
#[macro_export]
#[doc(hidden)]
macro_rules! pounded_var_names {
    ($call:ident! $extra:tt $($tts:tt)*) => {
        $crate::pounded_var_names_with_context!{$call! $extra
            (@ $($tts)*)
            ($($tts)* @)
        }
    };
}

#[macro_export]
#[doc(hidden)]
macro_rules! pounded_var_names_with_context {
    ($call:ident! $extra:tt ($($b1:tt)*) ($($curr:tt)*)) => {
        $(
            $crate::pounded_var_with_context!{$call! $extra $b1 $curr}
        )*
    };
}

#[macro_export]
#[doc(hidden)]
macro_rules! pounded_var_with_context {
    ($call:ident! $extra:tt $b1:tt ( $($inner:tt)* )) => {
        $crate::pounded_var_names!{$call! $extra $($inner)*}
    };

    ($call:ident! $extra:tt $b1:tt [ $($inner:tt)* ]) => {
        $crate::pounded_var_names!{$call! $extra $($inner)*}
    };

    ($call:ident! $extra:tt $b1:tt { $($inner:tt)* }) => {
        $crate::pounded_var_names!{$call! $extra $($inner)*}
    };

    ($call:ident!($($extra:tt)*) # $var:ident) => {
        $crate::$call!($($extra)* $var);
    };

    ($call:ident! $extra:tt $b1:tt $curr:tt) => {};
}

#[macro_export]
#[doc(hidden)]
macro_rules! quote_bind_into_iter {
    ($has_iter:ident $var:ident) => {
        // `mut` may be unused if $var occurs multiple times in the list.
        #[allow(unused_mut)]
        let (mut $var, i) = $var.quote_into_iter();
        let $has_iter = $has_iter | i;
    };
}

#[macro_export]
#[doc(hidden)]
macro_rules! quote_bind_next_or_break {
    ($var:ident) => {
        let $var = match $var.next() {
            Some(_x) => $crate::__private::RepInterp(_x),
            None => break,
        };
    };
}

// The obvious way to write this macro is as a tt muncher. This implementation
// does something more complex for two reasons.
//
//   - With a tt muncher it's easy to hit Rust's built-in recursion_limit, which
//     this implementation avoids because it isn't tail recursive.
//
//   - Compile times for a tt muncher are quadratic relative to the length of
//     the input. This implementation is linear, so it will be faster
//     (potentially much faster) for big inputs. However, the constant factors
//     of this implementation are higher than that of a tt muncher, so it is
//     somewhat slower than a tt muncher if there are many invocations with
//     short inputs.
//
// An invocation like this:
//
//     quote_each_token!(_s a b c d e f g h i j);
//
// expands to this:
//
//     quote_tokens_with_context!(_s
//         (@  @  @  @   @   @   a   b   c   d   e   f   g  h  i  j)
//         (@  @  @  @   @   a   b   c   d   e   f   g   h  i  j  @)
//         (@  @  @  @   a   b   c   d   e   f   g   h   i  j  @  @)
//         (@  @  @ (a) (b) (c) (d) (e) (f) (g) (h) (i) (j) @  @  @)
//         (@  @  a  b   c   d   e   f   g   h   i   j   @  @  @  @)
//         (@  a  b  c   d   e   f   g   h   i   j   @   @  @  @  @)
//         (a  b  c  d   e   f   g   h   i   j   @   @   @  @  @  @)
//     );
//
// which gets transposed and expanded to this:
//
//     quote_token_with_context!(_s @ @ @  @  @ @ a);
//     quote_token_with_context!(_s @ @ @  @  @ a b);
//     quote_token_with_context!(_s @ @ @  @  a b c);
//     quote_token_with_context!(_s @ @ @ (a) b c d);
//     quote_token_with_context!(_s @ @ a (b) c d e);
//     quote_token_with_context!(_s @ a b (c) d e f);
//     quote_token_with_context!(_s a b c (d) e f g);
//     quote_token_with_context!(_s b c d (e) f g h);
//     quote_token_with_context!(_s c d e (f) g h i);
//     quote_token_with_context!(_s d e f (g) h i j);
//     quote_token_with_context!(_s e f g (h) i j @);
//     quote_token_with_context!(_s f g h (i) j @ @);
//     quote_token_with_context!(_s g h i (j) @ @ @);
//     quote_token_with_context!(_s h i j  @  @ @ @);
//     quote_token_with_context!(_s i j @  @  @ @ @);
//     quote_token_with_context!(_s j @ @  @  @ @ @);
//
// Without having used muncher-style recursion, we get one invocation of
// quote_token_with_context for each original tt, with three tts of context on
// either side. This is enough for the longest possible interpolation form (a
// repetition with separator, as in `# (#var) , *`) to be fully represented with
// the first or last tt in the middle.
//
// The middle tt (surrounded by parentheses) is the tt being processed.
//
//   - When it is a `#`, quote_token_with_context can do an interpolation. The
//     interpolation kind will depend on the three subsequent tts.
//
//   - When it is within a later part of an interpolation, it can be ignored
//     because the interpolation has already been done.
//
//   - When it is not part of an interpolation it can be pushed as a single
//     token into the output.
//
//   - When the middle token is an unparenthesized `@`, that call is one of the
//     first 3 or last 3 calls of quote_token_with_context and does not
//     correspond to one of the original input tokens, so turns into nothing.
#[macro_export]
#[doc(hidden)]
macro_rules! quote_each_token {
    ($tokens:ident $($tts:tt)*) => {
        $crate::quote_tokens_with_context!{$tokens
            (@ @ @ @ @ @ $($tts)*)
            (@ @ @ @ @ $($tts)* @)
            (@ @ @ @ $($tts)* @ @)
            (@ @ @ $(($tts))* @ @ @)
            (@ @ $($tts)* @ @ @ @)
            (@ $($tts)* @ @ @ @ @)
            ($($tts)* @ @ @ @ @ @)
        }
    };
}

// See the explanation on quote_each_token.
#[macro_export]
#[doc(hidden)]
macro_rules! quote_each_token_spanned {
    ($tokens:ident $span:ident $($tts:tt)*) => {
        $crate::quote_tokens_with_context_spanned!{$tokens $span
            (@ @ @ @ @ @ $($tts)*)
            (@ @ @ @ @ $($tts)* @)
            (@ @ @ @ $($tts)* @ @)
            (@ @ @ $(($tts))* @ @ @)
            (@ @ $($tts)* @ @ @ @)
            (@ $($tts)* @ @ @ @ @)
            ($($tts)* @ @ @ @ @ @)
        }
    };
}

// See the explanation on quote_each_token.
#[macro_export]
#[doc(hidden)]
macro_rules! quote_tokens_with_context {
    ($tokens:ident
        ($($b3:tt)*) ($($b2:tt)*) ($($b1:tt)*)
        ($($curr:tt)*)
        ($($a1:tt)*) ($($a2:tt)*) ($($a3:tt)*)
    ) => {
        $(
            $crate::quote_token_with_context!{$tokens $b3 $b2 $b1 $curr $a1 $a2 $a3}
        )*
    };
}

// See the explanation on quote_each_token.
#[macro_export]
#[doc(hidden)]
macro_rules! quote_tokens_with_context_spanned {
    ($tokens:ident $span:ident
        ($($b3:tt)*) ($($b2:tt)*) ($($b1:tt)*)
        ($($curr:tt)*)
        ($($a1:tt)*) ($($a2:tt)*) ($($a3:tt)*)
    ) => {
        $(
            $crate::quote_token_with_context_spanned!{$tokens $span $b3 $b2 $b1 $curr $a1 $a2 $a3}
        )*
    };
}

// See the explanation on quote_each_token.
#[macro_export]
#[doc(hidden)]
macro_rules! quote_token_with_context {
    // Unparenthesized `@` indicates this call does not correspond to one of the
    // original input tokens. Ignore it.
    ($tokens:ident $b3:tt $b2:tt $b1:tt @ $a1:tt $a2:tt $a3:tt) => {};

    // [verif model] single-variable repetition
    ($tokens:ident $b3:tt $b2:tt $b1:tt (#) ( # $var:ident ) * $a3:tt) => {
        $crate::__private::push_all(&mut $tokens, &$var);
    };
    // A repetition with no separator.
    ($tokens:ident $b3:tt $b2:tt $b1:tt (#) ( $($inner:tt)* ) * $a3:tt) => {{
        use $crate::__private::ext::*;
        let has_iter = $crate::__private::HasIterator::<false>;
        $crate::pounded_var_names!{quote_bind_into_iter!(has_iter) () $($inner)*}
        <_ as $crate::__private::CheckHasIterator<true>>::check(has_iter);
        // This is `while true` instead of `loop` because if there are no
        // iterators used inside of this repetition then the body would not
        // contain any `break`, so the compiler would emit unreachable code
        // warnings on anything below the loop. We use has_iter to detect and
        // fail to compile when there are no iterators, so here we just work
        // around the unneeded extra warning.
        while true {
            $crate::pounded_var_names!{quote_bind_next_or_break!() () $($inner)*}
            $crate::quote_each_token!{$tokens $($inner)*}
        }
    }};
    // ... and one step later.
    ($tokens:ident $b3:tt $b2:tt # (( $($inner:tt)* )) * $a2:tt $a3:tt) => {};
    // ... and one step later.
    ($tokens:ident $b3:tt # ( $($inner:tt)* ) (*) $a1:tt $a2:tt $a3:tt) => {};

    // A repetition with separator.
    ($tokens:ident $b3:tt $b2:tt $b1:tt (#) ( $($inner:tt)* ) $sep:tt *) => {{
        use $crate::__private::ext::*;
        let mut _first = true;
        let has_iter = $crate::__private::HasIterator::<false>;
        $crate::pounded_var_names!{quote_bind_into_iter!(has_iter) () $($inner)*}
        <_ as $crate::__private::CheckHasIterator<true>>::check(has_iter);
        while true {
            $crate::pounded_var_names!{quote_bind_next_or_break!() () $($inner)*}
            if !_first {
                $crate::quote_token!{$sep $tokens}
            }
            _first = false;
            $crate::quote_each_token!{$tokens $($inner)*}
        }
    }};
    // ... and one step later.
    ($tokens:ident $b3:tt $b2:tt # (( $($inner:tt)* )) $sep:tt * $a3:tt) => {};
    // ... and one step later.
    ($tokens:ident $b3:tt # ( $($inner:tt)* ) ($sep:tt) * $a2:tt $a3:tt) => {};
    // (A special case for `#(var)**`, where the first `*` is treated as the
    // repetition symbol and the second `*` is treated as an ordinary token.)
    ($tokens:ident # ( $($inner:tt)* ) * (*) $a1:tt $a2:tt $a3:tt) => {
        // https://github.com/dtolnay/quote/issues/130
        $crate::quote_token!{* $tokens}
    };
    // ... and one step later.
    ($tokens:ident # ( $($inner:tt)* ) $sep:tt (*) $a1:tt $a2:tt $a3:tt) => {};

    // A non-repetition interpolation.
    ($tokens:ident $b3:tt $b2:tt $b1:tt (#) $var:ident $a2:tt $a3:tt) => {
        $crate::ToTokens::to_tokens(&$var, &mut $tokens);
    };
    // ... and one step later.
    ($tokens:ident $b3:tt $b2:tt # ($var:ident) $a1:tt $a2:tt $a3:tt) => {};

    // An ordinary token, not part of any interpolation.
    ($tokens:ident $b3:tt $b2:tt $b1:tt ($curr:tt) $a1:tt $a2:tt $a3:tt) => {
        $crate::quote_token!{$curr $tokens}
    };
}

// See the explanation on quote_each_token, and on the individual rules of
// quote_token_with_context.
#[macro_export]
#[doc(hidden)]
macro_rules! quote_token_with_context_spanned {
    ($tokens:ident $span:ident $b3:tt $b2:tt $b1:tt @ $a1:tt $a2:tt $a3:tt) => {};

    ($tokens:ident $span:ident $b3:tt $b2:tt $b1:tt (#) ( $($inner:tt)* ) * $a3:tt) => {{
        use $crate::__private::ext::*;
        let has_iter = $crate::__private::HasIterator::<false>;
        $crate::pounded_var_names!{quote_bind_into_iter!(has_iter) () $($inner)*}
        <_ as $crate::__private::CheckHasIterator<true>>::check(has_iter);
        while true {
            $crate::pounded_var_names!{quote_bind_next_or_break!() () $($inner)*}
            $crate::quote_each_token_spanned!{$tokens $span $($inner)*}
        }
    }};
    ($tokens:ident $span:ident $b3:tt $b2:tt # (( $($inner:tt)* )) * $a2:tt $a3:tt) => {};
    ($tokens:ident $span:ident $b3:tt # ( $($inner:tt)* ) (*) $a1:tt $a2:tt $a3:tt) => {};

    ($tokens:ident $span:ident $b3:tt $b2:tt $b1:tt (#) ( $($inner:tt)* ) $sep:tt *) => {{
        use $crate::__private::ext::*;
        let mut _first = true;
        let has_iter = $crate::__private::HasIterator::<false>;
        $crate::pounded_var_names!{quote_bind_into_iter!(has_iter) () $($inner)*}
        <_ as $crate::__private::CheckHasIterator<true>>::check(has_iter);
        while true {
            $crate::pounded_var_names!{quote_bind_next_or_break!() () $($inner)*}
            if !_first {
                $crate::quote_token_spanned!{$sep $tokens $span}
            }
            _first = false;
            $crate::quote_each_token_spanned!{$tokens $span $($inner)*}
        }
    }};
    ($tokens:ident $span:ident $b3:tt $b2:tt # (( $($inner:tt)* )) $sep:tt * $a3:tt) => {};
    ($tokens:ident $span:ident $b3:tt # ( $($inner:tt)* ) ($sep:tt) * $a2:tt $a3:tt) => {};
    ($tokens:ident $span:ident # ( $($inner:tt)* ) * (*) $a1:tt $a2:tt $a3:tt) => {
        // https://github.com/dtolnay/quote/issues/130
        $crate::quote_token_spanned!{* $tokens $span}
    };
    ($tokens:ident $span:ident # ( $($inner:tt)* ) $sep:tt (*) $a1:tt $a2:tt $a3:tt) => {};

    ($tokens:ident $span:ident $b3:tt $b2:tt $b1:tt (#) $var:ident $a2:tt $a3:tt) => {
        $crate::ToTokens::to_tokens(&$var, &mut $tokens);
    };
    ($tokens:ident $span:ident $b3:tt $b2:tt # ($var:ident) $a1:tt $a2:tt $a3:tt) => {};

    ($tokens:ident $span:ident $b3:tt $b2:tt $b1:tt ($curr:tt) $a1:tt $a2:tt $a3:tt) => {
        $crate::quote_token_spanned!{$curr $tokens $span}
    };
}

// These rules are ordered by approximate token frequency, at least for the
// first 10 or so, to improve compile times. Having `ident` first is by far the
// most important because it's typically 2-3x more common than the next most
// common token.
//
// Separately, we put the token being matched in the very front so that failing
// rules may fail to match as quickly as possible.
#[macro_export]
#[doc(hidden)]
macro_rules! quote_token {
    ($ident:ident $tokens:ident) => {
        $crate::__private::push_ident(
            &mut $tokens,
            $crate::__private::stringify!($ident),
        );
    };

    (:: $tokens:ident) => {
        $crate::__private::push_colon2(&mut $tokens);
    };

    (( $($inner:tt)* ) $tokens:ident) => {
        $crate::__private::push_group(
            &mut $tokens,
            $crate::__private::Delimiter::Parenthesis,
            $crate::quote!($($inner)*),
        );
    };

    ([ $($inner:tt)* ] $tokens:ident) => {
        $crate::__private::push_group(
            &mut $tokens,
            $crate::__private::Delimiter::Bracket,
            $crate::quote!($($inner)*),
        );
    };

    ({ $($inner:tt)* } $tokens:ident) => {
        $crate::__private::push_group(
            &mut $tokens,
            $crate::__private::Delimiter::Brace,
            $crate::quote!($($inner)*),
        );
    };

    (# $tokens:ident) => {
        $crate::__private::push_pound(&mut $tokens);
    };

    (, $tokens:ident) => {
        $crate::__private::push_comma(&mut $tokens);
    };

    (. $tokens:ident) => {
        $crate::__private::push_dot(&mut $tokens);
    };

    (; $tokens:ident) => {
        $crate::__private::push_semi(&mut $tokens);
    };

    (: $tokens:ident) => {
        $crate::__private::push_colon(&mut $tokens);
    };

    (+ $tokens:ident) => {
        $crate::__private::push_add(&mut $tokens);
    };

    (+= $tokens:ident) => {
        $crate::__private::push_add_eq(&mut $tokens);
    };

    (& $tokens:ident) => {
        $crate::__private::push_and(&mut $tokens);
    };

    (&& $tokens:ident) => {
        $crate::__private::push_and_and(&mut $tokens);
    };

    (&= $tokens:ident) => {
        $crate::__private::push_and_eq(&mut $tokens);
    };

    (@ $tokens:ident) => {
        $crate::__private::push_at(&mut $tokens);
    };

    (! $tokens:ident) => {
        $crate::__private::push_bang(&mut $tokens);
    };

    (^ $tokens:ident) => {
        $crate::__private::push_caret(&mut $tokens);
    };

    (^= $tokens:ident) => {
        $crate::__private::push_caret_eq(&mut $tokens);
    };

    (/ $tokens:ident) => {
        $crate::__private::push_div(&mut $tokens);
    };

    (/= $tokens:ident) => {
        $crate::__private::push_div_eq(&mut $tokens);
    };

    (.. $tokens:ident) => {
        $crate::__private::push_dot2(&mut $tokens);
    };

    (... $tokens:ident) => {
        $crate::__private::push_dot3(&mut $tokens);
    };

    (..= $tokens:ident) => {
        $crate::__private::push_dot_dot_eq(&mut $tokens);
    };

    (= $tokens:ident) => {
        $crate::__private::push_eq(&mut $tokens);
    };

    (== $tokens:ident) => {
        $crate::__private::push_eq_eq(&mut $tokens);
    };

    (>= $tokens:ident) => {
        $crate::__private::push_ge(&mut $tokens);
    };

    (> $tokens:ident) => {
        $crate::__private::push_gt(&mut $tokens);
    };

    (<= $tokens:ident) => {
        $crate::__private::push_le(&mut $tokens);
    };

    (< $tokens:ident) => {
        $crate::__private::push_lt(&mut $tokens);
    };

    (*= $tokens:ident) => {
        $crate::__private::push_mul_eq(&mut $tokens);
    };

    (!= $tokens:ident) => {
        $crate::__private::push_ne(&mut $tokens);
    };

    (| $tokens:ident) => {
        $crate::__private::push_or(&mut $tokens);
    };

    (|= $tokens:ident) => {
        $crate::__private::push_or_eq(&mut $tokens);
    };

    (|| $tokens:ident) => {
        $crate::__private::push_or_or(&mut $tokens);
    };

    (? $tokens:ident) => {
        $crate::__private::push_question(&mut $tokens);
    };

    (-> $tokens:ident) => {
        $crate::__private::push_rarrow(&mut $tokens);
    };

    (<- $tokens:ident) => {
        $crate::__private::push_larrow(&mut $tokens);
    };

    (% $tokens:ident) => {
        $crate::__private::push_rem(&mut $tokens);
    };

    (%= $tokens:ident) => {
        $crate::__private::push_rem_eq(&mut $tokens);
    };

    (=> $tokens:ident) => {
        $crate::__private::push_fat_arrow(&mut $tokens);
    };

    (<< $tokens:ident) => {
        $crate::__private::push_shl(&mut $tokens);
    };

    (<<= $tokens:ident) => {
        $crate::__private::push_shl_eq(&mut $tokens);
    };

    (>> $tokens:ident) => {
        $crate::__private::push_shr(&mut $tokens);
    };

    (>>= $tokens:ident) => {
        $crate::__private::push_shr_eq(&mut $tokens);
    };

    (* $tokens:ident) => {
        $crate::__private::push_star(&mut $tokens);
    };

    (- $tokens:ident) => {
        $crate::__private::push_sub(&mut $tokens);
    };

    (-= $tokens:ident) => {
        $crate::__private::push_sub_eq(&mut $tokens);
    };

    ($lifetime:lifetime $tokens:ident) => {
        $crate::__private::push_lifetime(
            &mut $tokens,
            $crate::__private::stringify!($lifetime),
        );
    };

    (_ $tokens:ident) => {
        $crate::__private::push_underscore(&mut $tokens);
    };

    ($other:tt $tokens:ident) => {
        $crate::__private::parse(
            &mut $tokens,
            $crate::__private::stringify!($other),
        );
    };
}

// See the comment above `quote_token!` about the rule ordering.
#[macro_export]
#[doc(hidden)]
macro_rules! quote_token_spanned {
    ($ident:ident $tokens:ident $span:ident) => {
        $crate::__private::push_ident_spanned(
            &mut $tokens,
            $span,
            $crate::__private::stringify!($ident),
        );
    };

    (:: $tokens:ident $span:ident) => {
        $crate::__private::push_colon2_spanned(&mut $tokens, $span);
    };

    (( $($inner:tt)* ) $tokens:ident $span:ident) => {
        $crate::__private::push_group_spanned(
            &mut $tokens,
            $span,
            $crate::__private::Delimiter::Parenthesis,
            {
                $crate::quote_spanned_with_expanded_span!{$span $($inner)*}
            },
        );
    };

    ([ $($inner:tt)* ] $tokens:ident $span:ident) => {
        $crate::__private::push_group_spanned(
            &mut $tokens,
            $span,
            $crate::__private::Delimiter::Bracket,
            {
                $crate::quote_spanned_with_expanded_span!{$span $($inner)*}
            },
        );
    };

    ({ $($inner:tt)* } $tokens:ident $span:ident) => {
        $crate::__private::push_group_spanned(
            &mut $tokens,
            $span,
            $crate::__private::Delimiter::Brace,
            {
                $crate::quote_spanned_with_expanded_span!{$span $($inner)*}
            },
        );
    };

    (# $tokens:ident $span:ident) => {
        $crate::__private::push_pound_spanned(&mut $tokens, $span);
    };

    (, $tokens:ident $span:ident) => {
        $crate::__private::push_comma_spanned(&mut $tokens, $span);
    };

    (. $tokens:ident $span:ident) => {
        $crate::__private::push_dot_spanned(&mut $tokens, $span);
    };

    (; $tokens:ident $span:ident) => {
        $crate::__private::push_semi_spanned(&mut $tokens, $span);
    };

    (: $tokens:ident $span:ident) => {
        $crate::__private::push_colon_spanned(&mut $tokens, $span);
    };

    (+ $tokens:ident $span:ident) => {
        $crate::__private::push_add_spanned(&mut $tokens, $span);
    };

    (+= $tokens:ident $span:ident) => {
        $crate::__private::push_add_eq_spanned(&mut $tokens, $span);
    };

    (& $tokens:ident $span:ident) => {
        $crate::__private::push_and_spanned(&mut $tokens, $span);
    };

    (&& $tokens:ident $span:ident) => {
        $crate::__private::push_and_and_spanned(&mut $tokens, $span);
    };

    (&= $tokens:ident $span:ident) => {
        $crate::__private::push_and_eq_spanned(&mut $tokens, $span);
    };

    (@ $tokens:ident $span:ident) => {
        $crate::__private::push_at_spanned(&mut $tokens, $span);
    };

    (! $tokens:ident $span:ident) => {
        $crate::__private::push_bang_spanned(&mut $tokens, $span);
    };

    (^ $tokens:ident $span:ident) => {
        $crate::__private::push_caret_spanned(&mut $tokens, $span);
    };

    (^= $tokens:ident $span:ident) => {
        $crate::__private::push_caret_eq_spanned(&mut $tokens, $span);
    };

    (/ $tokens:ident $span:ident) => {
        $crate::__private::push_div_spanned(&mut $tokens, $span);
    };

    (/= $tokens:ident $span:ident) => {
        $crate::__private::push_div_eq_spanned(&mut $tokens, $span);
    };

    (.. $tokens:ident $span:ident) => {
        $crate::__private::push_dot2_spanned(&mut $tokens, $span);
    };

    (... $tokens:ident $span:ident) => {
        $crate::__private::push_dot3_spanned(&mut $tokens, $span);
    };

    (..= $tokens:ident $span:ident) => {
        $crate::__private::push_dot_dot_eq_spanned(&mut $tokens, $span);
    };

    (= $tokens:ident $span:ident) => {
        $crate::__private::push_eq_spanned(&mut $tokens, $span);
    };

    (== $tokens:ident $span:ident) => {
        $crate::__private::push_eq_eq_spanned(&mut $tokens, $span);
    };

    (>= $tokens:ident $span:ident) => {
        $crate::__private::push_ge_spanned(&mut $tokens, $span);
    };

    (> $tokens:ident $span:ident) => {
        $crate::__private::push_gt_spanned(&mut $tokens, $span);
    };

    (<= $tokens:ident $span:ident) => {
        $crate::__private::push_le_spanned(&mut $tokens, $span);
    };

    (< $tokens:ident $span:ident) => {
        $crate::__private::push_lt_spanned(&mut $tokens, $span);
    };

    (*= $tokens:ident $span:ident) => {
        $crate::__private::push_mul_eq_spanned(&mut $tokens, $span);
    };

    (!= $tokens:ident $span:ident) => {
        $crate::__private::push_ne_spanned(&mut $tokens, $span);
    };

    (| $tokens:ident $span:ident) => {
        $crate::__private::push_or_spanned(&mut $tokens, $span);
    };

    (|= $tokens:ident $span:ident) => {
        $crate::__private::push_or_eq_spanned(&mut $tokens, $span);
    };

    (|| $tokens:ident $span:ident) => {
        $crate::__private::push_or_or_spanned(&mut $tokens, $span);
    };

    (? $tokens:ident $span:ident) => {
        $crate::__private::push_question_spanned(&mut $tokens, $span);
    };

    (-> $tokens:ident $span:ident) => {
        $crate::__private::push_rarrow_spanned(&mut $tokens, $span);
    };

    (<- $tokens:ident $span:ident) => {
        $crate::__private::push_larrow_spanned(&mut $tokens, $span);
    };

    (% $tokens:ident $span:ident) => {
        $crate::__private::push_rem_spanned(&mut $tokens, $span);
    };

    (%= $tokens:ident $span:ident) => {
        $crate::__private::push_rem_eq_spanned(&mut $tokens, $span);
    };

    (=> $tokens:ident $span:ident) => {
        $crate::__private::push_fat_arrow_spanned(&mut $tokens, $span);
    };

    (<< $tokens:ident $span:ident) => {
        $crate::__private::push_shl_spanned(&mut $tokens, $span);
    };

    (<<= $tokens:ident $span:ident) => {
        $crate::__private::push_shl_eq_spanned(&mut $tokens, $span);
    };

    (>> $tokens:ident $span:ident) => {
        $crate::__private::push_shr_spanned(&mut $tokens, $span);
    };

    (>>= $tokens:ident $span:ident) => {
        $crate::__private::push_shr_eq_spanned(&mut $tokens, $span);
    };

    (* $tokens:ident $span:ident) => {
        $crate::__private::push_star_spanned(&mut $tokens, $span);
    };

    (- $tokens:ident $span:ident) => {
        $crate::__private::push_sub_spanned(&mut $tokens, $span);
    };

    (-= $tokens:ident $span:ident) => {
        $crate::__private::push_sub_eq_spanned(&mut $tokens, $span);
    };

    ($lifetime:lifetime $tokens:ident $span:ident) => {
        $crate::__private::push_lifetime_spanned(
            &mut $tokens,
            $span,
            $crate::__private::stringify!($lifetime),
        );
    };

    (_ $tokens:ident $span:ident) => {
        $crate::__private::push_underscore_spanned(&mut $tokens, $span);
    };

    ($other:tt $tokens:ident $span:ident) => {
        $crate::__private::parse_spanned(
            &mut $tokens,
            $span,
            $crate::__private::stringify!($other),
        );
    };
}

// ---- token model (trusted base) ----
verus! {

pub enum Delimiter { Parenthesis, Brace, Bracket, None }

pub enum Tok {
    Id(Seq<char>),
    P(Seq<char>),
    Lt(Seq<char>),
    Other(Seq<char>),
    Open(Delimiter),
    Close(Delimiter),
    Int(int),
}

pub type Toks = Seq<Tok>;

pub open spec fn id(s: &str) -> Toks { seq![Tok::Id(s@)] }
pub open spec fn p(s: &str) -> Toks { seq![Tok::P(s@)] }
pub open spec fn lt(s: &str) -> Toks { seq![Tok::Lt(s@)] }
pub open spec fn grp(d: Delimiter, inner: Toks) -> Toks { seq![Tok::Open(d)] + inner + seq![Tok::Close(d)] }
pub open spec fn paren(inner: Toks) -> Toks { grp(Delimiter::Parenthesis, inner) }
pub open spec fn brace(inner: Toks) -> Toks { grp(Delimiter::Brace, inner) }
pub open spec fn bracket(inner: Toks) -> Toks { grp(Delimiter::Bracket, inner) }
pub open spec fn nil() -> Toks { Seq::<Tok>::empty() }

#[verifier::external_body]
pub struct TokenStream { _p: core::marker::PhantomData<()> }

impl View for TokenStream {
    type V = Seq<Tok>;
    uninterp spec fn view(&self) -> Seq<Tok>;
}

impl TokenStream {
    #[verifier::external_body]
    pub fn new() -> (r: TokenStream)
        ensures r@ =~= nil(),
    { unimplemented!() }
}

impl Clone for TokenStream {
    #[verifier::external_body]
    fn clone(&self) -> (r: TokenStream)
        ensures r@ == self@,
    { unimplemented!() }
}

pub trait ToTokens {
    spec fn toks(&self) -> Seq<Tok>;

    fn to_tokens(&self, tokens: &mut TokenStream)
        ensures final(tokens)@ == old(tokens)@ + self.toks();

    fn to_token_stream(&self) -> (r: TokenStream)
        ensures r@ == self.toks();
}

impl ToTokens for TokenStream {
    open spec fn toks(&self) -> Seq<Tok> { self@ }
    #[verifier::external_body]
    fn to_tokens(&self, tokens: &mut TokenStream) { unimplemented!() }
    #[verifier::external_body]
    fn to_token_stream(&self) -> (r: TokenStream) { unimplemented!() }
}

impl<T: ToTokens> ToTokens for Option<T> {
    open spec fn toks(&self) -> Seq<Tok> {
        match self { Some(t) => t.toks(), None => nil() }
    }
    #[verifier::external_body]
    fn to_tokens(&self, tokens: &mut TokenStream) { unimplemented!() }
    #[verifier::external_body]
    fn to_token_stream(&self) -> (r: TokenStream) { unimplemented!() }
}

impl<'a, T: ToTokens + ?Sized> ToTokens for &'a T {
    open spec fn toks(&self) -> Seq<Tok> { (**self).toks() }
    #[verifier::external_body]
    fn to_tokens(&self, tokens: &mut TokenStream) { unimplemented!() }
    #[verifier::external_body]
    fn to_token_stream(&self) -> (r: TokenStream) { unimplemented!() }
}

} // verus!

pub mod __private {
    pub use core::stringify;
    pub use super::__private_rep::push_all;
    pub use super::TokenStream;
    pub use super::Delimiter;
    use super::*;
    verus! {
    #[verifier::external_body]
    pub fn push_ident(tokens: &mut TokenStream, s: &str)
        ensures final(tokens)@ == old(tokens)@ + id(s),
    { unimplemented!() }
    #[verifier::external_body]
    pub fn push_lifetime(tokens: &mut TokenStream, s: &str)
        ensures final(tokens)@ == old(tokens)@ + lt(s),
    { unimplemented!() }
    #[verifier::external_body]
    pub fn parse(tokens: &mut TokenStream, s: &str)
        ensures final(tokens)@ == old(tokens)@ + seq![Tok::Other(s@)],
    { unimplemented!() }
    #[verifier::external_body]
    pub fn push_group(tokens: &mut TokenStream, delimiter: Delimiter, inner: TokenStream)
        ensures final(tokens)@ == old(tokens)@ + grp(delimiter, inner@),
    { unimplemented!() }
    }
    macro_rules! push_punct {
        ($($name:ident $s:literal)*) => { verus! { $(
            #[verifier::external_body]
            pub fn $name(tokens: &mut TokenStream)
                ensures final(tokens)@ == old(tokens)@ + p($s),
            { unimplemented!() }
        )* } };
    }
    push_punct! {
        push_add "+" push_add_eq "+=" push_and "&" push_and_and "&&" push_and_eq "&=" push_at "@" push_bang "!"
        push_caret "^" push_caret_eq "^=" push_colon ":" push_colon2 "::" push_comma "," push_div "/" push_div_eq "/="
        push_dot "." push_dot2 ".." push_dot3 "..." push_dot_dot_eq "..=" push_eq "=" push_eq_eq "==" push_ge ">="
        push_gt ">" push_le "<=" push_lt "<" push_mul_eq "*=" push_ne "!=" push_or "|" push_or_eq "|=" push_or_or "||"
        push_pound "#" push_question "?" push_rarrow "->" push_larrow "<-" push_rem "%" push_rem_eq "%=" push_fat_arrow "=>"
        push_semi ";" push_shl "<<" push_shl_eq "<<=" push_shr ">>" push_shr_eq ">>=" push_star "*" push_sub "-" push_sub_eq "-="
        push_underscore "_"
    }
}

// ---- [verif model] quote's single-variable repetition `#(#v)*` ----
verus! {
// concatenation of a sequence of token sequences
pub open spec fn flat(s: Seq<Seq<Tok>>) -> Seq<Tok>
    decreases s.len(),
{
    if s.len() == 0 { Seq::<Tok>::empty() } else { s[0] + flat(s.drop_first()) }
}

pub trait RepToTokens {
    // the token sequences of the elements, in iteration order
    spec fn rep_toks(&self) -> Seq<Seq<Tok>>;
}
}
pub mod __private_rep {
    use super::*;
    verus! {
    #[verifier::external_body]
    pub fn push_all<T: RepToTokens>(tokens: &mut TokenStream, v: &T)
        ensures final(tokens)@ == old(tokens)@ + flat(v.rep_toks()),
    { unimplemented!() }
    }
}
// ---- dependency stubs: assumed contracts on proc_macro2 / syn / quote / std (trusted base) ----
// Nothing in this file is code of /repo.  Every fn here is external_body: its contract is ASSUMED.

macro_rules! format_ident {
    ("f{}", $e:expr) => { mk_f_ident(&$e) };
}

macro_rules! Token {
    [,] => { Comma };
    [.] => { Dot };
    [:] => { Colon };
}

verus! {

pub struct Comma {}
pub struct Dot {}
pub struct Colon {}

pub struct Span {}

impl Span {
    #[verifier::external_body]
    pub fn call_site() -> (r: Span) { unimplemented!() }
}

impl Clone for Span {
    #[verifier::external_body]
    fn clone(&self) -> (r: Span) { unimplemented!() }
}
impl Copy for Span {}

// ---------------------------------------------------------------- Ident / Index / Member (mirrors syn)
#[verifier::external_body]
pub struct Ident { _p: core::marker::PhantomData<()> }

impl Ident {
    pub uninterp spec fn name(&self) -> Seq<char>;
}

impl Clone for Ident {
    #[verifier::external_body]
    fn clone(&self) -> (r: Ident)
        ensures r == *self,
    { unimplemented!() }
}

impl ToTokens for Ident {
    open spec fn toks(&self) -> Seq<Tok> { seq![Tok::Id(self.name())] }
    #[verifier::external_body]
    fn to_tokens(&self, tokens: &mut TokenStream) { unimplemented!() }
    #[verifier::external_body]
    fn to_token_stream(&self) -> (r: TokenStream) { unimplemented!() }
}

pub struct Index { pub index: u32, pub span: Span }

impl Clone for Index {
    #[verifier::external_body]
    fn clone(&self) -> (r: Index)
        ensures r == *self,
    { unimplemented!() }
}

impl ToTokens for Index {
    open spec fn toks(&self) -> Seq<Tok> { seq![Tok::Int(self.index as int)] }
    #[verifier::external_body]
    fn to_tokens(&self, tokens: &mut TokenStream) { unimplemented!() }
    #[verifier::external_body]
    fn to_token_stream(&self) -> (r: TokenStream) { unimplemented!() }
}

pub enum Member { Named(Ident), Unnamed(Index) }
pub use Member::{Named, Unnamed};

impl Clone for Member {
    #[verifier::external_body]
    fn clone(&self) -> (r: Member)
        ensures r == *self,
    { unimplemented!() }
}

impl ToTokens for Member {
    open spec fn toks(&self) -> Seq<Tok> {
        match self { Member::Named(i) => i.toks(), Member::Unnamed(i) => i.toks() }
    }
    #[verifier::external_body]
    fn to_tokens(&self, tokens: &mut TokenStream) { unimplemented!() }
    #[verifier::external_body]
    fn to_token_stream(&self) -> (r: TokenStream) { unimplemented!() }
}

// ---------------------------------------------------------------- format_ident!("f{}", e)
// model: the identifier whose name is "f" followed by the fragment text of e; decimal text of an integer is `dec(n)`
pub uninterp spec fn dec(n: int) -> Seq<char>;
pub open spec fn f_name(frag: Seq<char>) -> Seq<char> { seq!['f'] + frag }
pub open spec fn f_tok(n: int) -> Toks { seq![Tok::Id(f_name(dec(n)))] }

pub trait IdentFragment {
    spec fn frag(&self) -> Seq<char>;
}
impl IdentFragment for usize { open spec fn frag(&self) -> Seq<char> { dec(*self as int) } }
impl IdentFragment for u32 { open spec fn frag(&self) -> Seq<char> { dec(*self as int) } }
impl IdentFragment for Member {
    open spec fn frag(&self) -> Seq<char> {
        match self { Member::Named(i) => i.name(), Member::Unnamed(i) => dec(i.index as int) }
    }
}

#[verifier::external_body]
pub fn mk_f_ident<T: IdentFragment>(e: &T) -> (r: Ident)
    ensures r.name() == f_name(e.frag()),
{ unimplemented!() }

// ---------------------------------------------------------------- opaque syn values that only flow into tokens
#[verifier::external_body]
#[verifier::reject_recursive_types(T)]
#[verifier::reject_recursive_types(P)]
pub struct Punctuated<T, P> { _p: core::marker::PhantomData<(T, P)> }
impl<T, P> Punctuated<T, P> {
    pub uninterp spec fn ptoks(&self) -> Seq<Tok>;
    // the elements, in order
    pub uninterp spec fn pseq(&self) -> Seq<T>;
}
impl<T, P> ToTokens for Punctuated<T, P> {
    open spec fn toks(&self) -> Seq<Tok> { self.ptoks() }
    #[verifier::external_body]
    fn to_tokens(&self, tokens: &mut TokenStream) { unimplemented!() }
    #[verifier::external_body]
    fn to_token_stream(&self) -> (r: TokenStream) { unimplemented!() }
}
impl<T, P> Clone for Punctuated<T, P> {
    #[verifier::external_body]
    fn clone(&self) -> (r: Self) ensures r == *self, { unimplemented!() }
}

#[verifier::external_body]
pub struct Path { _p: core::marker::PhantomData<()> }
impl Path { pub uninterp spec fn ptoks(&self) -> Seq<Tok>; }
impl ToTokens for Path {
    open spec fn toks(&self) -> Seq<Tok> { self.ptoks() }
    #[verifier::external_body]
    fn to_tokens(&self, tokens: &mut TokenStream) { unimplemented!() }
    #[verifier::external_body]
    fn to_token_stream(&self) -> (r: TokenStream) { unimplemented!() }
}
impl Clone for Path {
    #[verifier::external_body]
    fn clone(&self) -> (r: Self) ensures r == *self, { unimplemented!() }
}

#[verifier::external_body]
pub struct Generics { _p: core::marker::PhantomData<()> }
impl Generics { pub uninterp spec fn ptoks(&self) -> Seq<Tok>; }
impl ToTokens for Generics {
    open spec fn toks(&self) -> Seq<Tok> { self.ptoks() }
    #[verifier::external_body]
    fn to_tokens(&self, tokens: &mut TokenStream) { unimplemented!() }
    #[verifier::external_body]
    fn to_token_stream(&self) -> (r: TokenStream) { unimplemented!() }
}

#[verifier::external_body]
pub struct AngleBracketedGenericArguments { _p: core::marker::PhantomData<()> }
impl AngleBracketedGenericArguments { pub uninterp spec fn ptoks(&self) -> Seq<Tok>; }
impl ToTokens for AngleBracketedGenericArguments {
    open spec fn toks(&self) -> Seq<Tok> { self.ptoks() }
    #[verifier::external_body]
    fn to_tokens(&self, tokens: &mut TokenStream) { unimplemented!() }
    #[verifier::external_body]
    fn to_token_stream(&self) -> (r: TokenStream) { unimplemented!() }
}
impl Clone for AngleBracketedGenericArguments {
    #[verifier::external_body]
    fn clone(&self) -> (r: Self) ensures r == *self, { unimplemented!() }
}

#[verifier::external_body]
pub struct WherePredicate { _p: core::marker::PhantomData<()> }

} // verus!

verus! {
#[verifier::external_body]
pub struct SynType { _p: core::marker::PhantomData<()> }
impl SynType { pub uninterp spec fn ptoks(&self) -> Seq<Tok>; }
impl ToTokens for SynType {
    open spec fn toks(&self) -> Seq<Tok> { self.ptoks() }
    #[verifier::external_body]
    fn to_tokens(&self, tokens: &mut TokenStream) { unimplemented!() }
    #[verifier::external_body]
    fn to_token_stream(&self) -> (r: TokenStream) { unimplemented!() }
}
pub struct SynField { pub ty: SynType }
}

pub mod syn {
    pub use super::Error;
    pub use super::SynField as Field;
    pub use super::SynType as Type;
    pub use super::syn_parse::parse2;
    pub use super::Path;
    pub use super::Member;
    pub use super::Index;
}
// ---- container stubs: assumed contracts on Vec / slice::Iter / Option adapters (trusted base) ----
verus! {

#[verifier::external_body]
#[verifier::reject_recursive_types(T)]
pub struct Vec<T> { _p: core::marker::PhantomData<T> }

impl<T> View for Vec<T> {
    type V = Seq<T>;
    uninterp spec fn view(&self) -> Seq<T>;
}

impl<T> Vec<T> {
    #[verifier::external_body]
    pub fn new() -> (r: Vec<T>)
        ensures r@ =~= Seq::<T>::empty(),
    { unimplemented!() }

    #[verifier::external_body]
    pub fn is_empty(&self) -> (r: bool)
        ensures r == (self@.len() == 0),
    { unimplemented!() }

    #[verifier::external_body]
    pub fn iter<'a>(&'a self) -> (r: Iter<'a, T>)
        ensures r@ == self@, r.items() == refs(self@),
    { unimplemented!() }

    #[verifier::external_body]
    pub fn push(&mut self, t: T)
        ensures final(self)@ == old(self)@.push(t),
    { unimplemented!() }

    #[verifier::external_body]
    pub fn extend<I: IntoIter<Item = T>>(&mut self, other: I)
        ensures final(self)@ == old(self)@ + other.into_items(),
    { unimplemented!() }
}

impl<T: Clone> Clone for Vec<T> {
    #[verifier::external_body]
    fn clone(&self) -> (r: Vec<T>)
        ensures r@ == self@,
    { unimplemented!() }
}

impl<T> Default for Vec<T> {
    #[verifier::external_body]
    fn default() -> (r: Vec<T>)
        ensures r@ =~= Seq::<T>::empty(),
    { unimplemented!() }
}

#[verifier::external_body]
#[verifier::reject_recursive_types(T)]
pub struct Iter<'a, T> { _p: core::marker::PhantomData<&'a T> }

impl<'a, T> View for Iter<'a, T> {
    type V = Seq<T>;
    uninterp spec fn view(&self) -> Seq<T>;
}

} // verus!

// ---------------------------------------------------------------- iterator adapters (ASSUMED contracts on core::iter)
verus! {

// first element of `s` satisfying `q`
pub open spec fn first<T>(s: Seq<T>, q: spec_fn(T) -> bool) -> Option<T>
    decreases s.len(),
{
    if s.len() == 0 {
        None
    } else if q(s[0]) {
        Some(s[0])
    } else {
        first(s.drop_first(), q)
    }
}

// the subsequence of the elements satisfying `q`, order kept
pub open spec fn sfilter<T>(s: Seq<T>, q: spec_fn(T) -> bool) -> Seq<T>
    decreases s.len(),
{
    if s.len() == 0 {
        Seq::<T>::empty()
    } else if q(s[0]) {
        seq![s[0]] + sfilter(s.drop_first(), q)
    } else {
        sfilter(s.drop_first(), q)
    }
}

// the sequence of references to the elements of `s` (what slice::Iter yields)
pub open spec fn refs<'a, T>(s: Seq<T>) -> Seq<&'a T> { Seq::new(s.len(), |i: int| &s[i]) }

// an executable predicate closure `f` decides the spec predicate `q`
pub open spec fn decides<T, F: Fn(&T) -> bool>(f: F, q: spec_fn(T) -> bool) -> bool {
    &&& forall|t: T| #[trigger] f.requires((&t,))
    &&& forall|t: T| #[trigger] f.ensures((&t,), true) ==> q(t)
    &&& forall|t: T| #[trigger] f.ensures((&t,), false) ==> !q(t)
}

pub trait IntoIter {
    type Item;
    // the elements it yields when iterated
    spec fn into_items(&self) -> Seq<Self::Item>;
}

pub trait FromIter<T>: Sized {
    // the elements the collection was built from, in order
    spec fn collected(&self) -> Seq<T>;
}

// concatenation of a sequence of sequences
pub open spec fn sflat<A>(s: Seq<Seq<A>>) -> Seq<A>
    decreases s.len(),
{
    if s.len() == 0 { Seq::<A>::empty() } else { s[0] + sflat(s.drop_first()) }
}

pub trait Iterator: Sized {
    type Item;

    // the elements still to be yielded
    spec fn items(&self) -> Seq<Self::Item>;

    // core::iter::Iterator::find: the first element on which the predicate returns true
    fn find<P: Fn(&Self::Item) -> bool>(&mut self, predicate: P) -> (r: Option<Self::Item>)
        requires forall|t: Self::Item| #[trigger] predicate.requires((&t,)),
        ensures forall|q: spec_fn(Self::Item) -> bool| decides(predicate, q) ==> r == #[trigger] first(old(self).items(), q);

    // core::iter::Iterator::filter: the subsequence on which the predicate returns true
    fn filter<P: Fn(&Self::Item) -> bool>(self, predicate: P) -> (r: Filter<Self::Item, P>)
        requires forall|t: Self::Item| #[trigger] predicate.requires((&t,)),
        ensures forall|q: spec_fn(Self::Item) -> bool| decides(predicate, q) ==> r.fitems() == #[trigger] sfilter(self.items(), q);

    // core::iter::Iterator::map: functional form (closure computes g) and relational form (i-th output is what the
    // closure returns on the i-th input)
    fn map<B, F: Fn(Self::Item) -> B>(self, f: F) -> (r: Map<B, F>)
        requires forall|t: Self::Item| #[trigger] f.requires((t,)),
        ensures
            forall|g: spec_fn(Self::Item) -> B| (forall|t: Self::Item, b: B| #[trigger] f.ensures((t,), b) ==> b == g(t))
                ==> r.mitems() == #[trigger] self.items().map_values(g),
            r.mitems().len() == self.items().len(),
            forall|i: int| 0 <= i < self.items().len() ==> f.ensures((self.items()[i],), #[trigger] r.mitems()[i]);

    // core::iter::Iterator::flat_map: the concatenation of what the closure yields for each element
    fn flat_map<U: IntoIter, F: Fn(Self::Item) -> U>(self, f: F) -> (r: FlatMap<U::Item>)
        requires forall|t: Self::Item| #[trigger] f.requires((t,)),
        ensures forall|g: spec_fn(Self::Item) -> Seq<U::Item>|
            (forall|t: Self::Item, u: U| #[trigger] f.ensures((t,), u) ==> u.into_items() == g(t))
            ==> r.fmitems() == #[trigger] sflat(self.items().map_values(g));

    // core::iter::Iterator::collect
    fn collect<B: FromIter<Self::Item>>(self) -> (r: B)
        ensures r.collected() == self.items();

    // core::iter::Iterator::any
    fn any<P: Fn(Self::Item) -> bool>(&mut self, predicate: P) -> (r: bool)
        requires forall|t: Self::Item| #[trigger] predicate.requires((t,)),
        ensures forall|q: spec_fn(Self::Item) -> bool|
            ((forall|t: Self::Item| #[trigger] predicate.ensures((t,), true) ==> q(t)) && (forall|t: Self::Item| #[trigger] predicate.ensures((t,), false) ==> !q(t)))
            ==> r == (#[trigger] first(old(self).items(), q) is Some);
}

} // verus!

// every iterator type of the model gets the same assumed method bodies
macro_rules! assumed_iterator {
    ([$($gen:tt)*] $ty:ty, $item:ty, |$s:ident| $items:expr) => { verus! {
        impl<$($gen)*> Iterator for $ty {
            type Item = $item;
            open spec fn items(&self) -> Seq<$item> { let $s = self; $items }
            #[verifier::external_body]
            fn find<P: Fn(&Self::Item) -> bool>(&mut self, predicate: P) -> (r: Option<Self::Item>) { unimplemented!() }
            #[verifier::external_body]
            fn filter<P: Fn(&Self::Item) -> bool>(self, predicate: P) -> (r: Filter<Self::Item, P>) { unimplemented!() }
            #[verifier::external_body]
            fn map<B, F: Fn(Self::Item) -> B>(self, f: F) -> (r: Map<B, F>) { unimplemented!() }
            #[verifier::external_body]
            fn flat_map<U: IntoIter, F: Fn(Self::Item) -> U>(self, f: F) -> (r: FlatMap<U::Item>) { unimplemented!() }
            #[verifier::external_body]
            fn collect<B: FromIter<Self::Item>>(self) -> (r: B) { unimplemented!() }
            #[verifier::external_body]
            fn any<P: Fn(Self::Item) -> bool>(&mut self, predicate: P) -> (r: bool) { unimplemented!() }
        }
        impl<$($gen)*> IntoIter for $ty {
            type Item = $item;
            open spec fn into_items(&self) -> Seq<$item> { let $s = self; $items }
        }
    } };
}

verus! {

#[verifier::external_body]
#[verifier::reject_recursive_types(T)]
#[verifier::reject_recursive_types(P)]
pub struct Filter<T, P> { _p: core::marker::PhantomData<(T, P)> }
impl<T, P> Filter<T, P> { pub uninterp spec fn fitems(&self) -> Seq<T>; }

#[verifier::external_body]
#[verifier::reject_recursive_types(T)]
#[verifier::reject_recursive_types(F)]
pub struct Map<T, F> { _p: core::marker::PhantomData<(T, F)> }
impl<T, F> Map<T, F> { pub uninterp spec fn mitems(&self) -> Seq<T>; }

#[verifier::external_body]
#[verifier::reject_recursive_types(T)]
pub struct FlatMap<T> { _p: core::marker::PhantomData<T> }
impl<T> FlatMap<T> { pub uninterp spec fn fmitems(&self) -> Seq<T>; }

} // verus!

assumed_iterator!(['a, T] Iter<'a, T>, &'a T, |s| refs(s.view()));
assumed_iterator!([T, P0] Filter<T, P0>, T, |s| s.fitems());
assumed_iterator!([T, F0] Map<T, F0>, T, |s| s.mitems());
assumed_iterator!([T] FlatMap<T>, T, |s| s.fmitems());

verus! {

impl<'a, T, P> IntoIter for &'a Punctuated<T, P> {
    type Item = &'a T;
    open spec fn into_items(&self) -> Seq<&'a T> { refs(self.pseq()) }
}
impl<T, P> Punctuated<T, P> {
    #[verifier::external_body]
    pub fn iter<'a>(&'a self) -> (r: Iter<'a, T>)
        ensures r@ == self.pseq(), r.items() == refs(self.pseq()),
    { unimplemented!() }
}
impl<T> IntoIter for Vec<T> {
    type Item = T;
    open spec fn into_items(&self) -> Seq<T> { self@ }
}
impl<T> FromIter<T> for Vec<T> {
    open spec fn collected(&self) -> Seq<T> { self@ }
}

// ---------------------------------------------------------------- Option::iter (ASSUMED contract on core::option)
#[verifier::external_type_specification]
#[verifier::external_body]
#[verifier::reject_recursive_types(T)]
pub struct ExOptionIter<'a, T: 'a>(core::option::Iter<'a, T>);

pub uninterp spec fn opt_iter_items<'a, T>(it: core::option::Iter<'a, T>) -> Seq<&'a T>;

pub assume_specification<'a, T> [core::option::Option::<T>::iter] (o: &'a Option<T>) -> (r: core::option::Iter<'a, T>)
    ensures opt_iter_items(r) == (match *o { Some(v) => seq![&v], None => Seq::<&T>::empty() });

} // verus!
assumed_iterator!(['a, T] core::option::Iter<'a, T>, &'a T, |s| opt_iter_items(*s));
verus! {

// ---------------------------------------------------------------- Peekable (ASSUMED contracts on core::iter::Peekable)
#[verifier::external_body]
#[verifier::reject_recursive_types(I)]
pub struct Peekable<I> { _p: core::marker::PhantomData<I> }

impl<I: Iterator> Peekable<I> {
    // the elements still to be yielded
    pub uninterp spec fn pitems(&self) -> Seq<I::Item>;

    #[verifier::external_body]
    pub fn peek(&mut self) -> (r: Option<&I::Item>)
        ensures
            final(self).pitems() == old(self).pitems(),
            old(self).pitems().len() == 0 ==> r is None,
            old(self).pitems().len() > 0 ==> r == Some(&old(self).pitems()[0]),
    { unimplemented!() }

    #[verifier::external_body]
    pub fn next(&mut self) -> (r: Option<I::Item>)
        ensures
            old(self).pitems().len() == 0 ==> (r is None && final(self).pitems() == old(self).pitems()),
            old(self).pitems().len() > 0 ==> (r == Some(old(self).pitems()[0]) && final(self).pitems() == old(self).pitems().drop_first()),
    { unimplemented!() }
}

impl<'a, T> Iter<'a, T> {
    #[verifier::external_body]
    pub fn peekable(self) -> (r: Peekable<Iter<'a, T>>)
        ensures r.pitems() == refs(self@),
    { unimplemented!() }
}

// Vec<TokenStream> under quote's `#(#v)*`
pub open spec fn toks_of(s: Seq<TokenStream>) -> Seq<Seq<Tok>> { s.map_values(|t: TokenStream| t@) }

impl RepToTokens for Vec<TokenStream> {
    open spec fn rep_toks(&self) -> Seq<Seq<Tok>> { toks_of(self@) }
}

} // verus!

macro_rules! vec {
    () => { Vec::new() };
}

// proved facts about flat / toks_of (not assumptions)
pub mod flat_lemmas {
    use super::*;
    verus! {
    pub broadcast proof fn lemma_toks_of_push(s: Seq<TokenStream>, t: TokenStream)
        ensures #[trigger] toks_of(s.push(t)) == toks_of(s).push(t@),
    { assert(toks_of(s.push(t)) =~= toks_of(s).push(t@)); }

    pub broadcast proof fn lemma_flat_concat(a: Seq<Seq<Tok>>, b: Seq<Seq<Tok>>)
        ensures #[trigger] flat(a + b) == flat(a) + flat(b),
        decreases a.len(),
    {
        if a.len() == 0 {
            assert(a + b =~= b);
            assert(flat(a) + flat(b) =~= flat(b));
        } else {
            assert((a + b).drop_first() =~= a.drop_first() + b);
            lemma_flat_concat(a.drop_first(), b);
            assert(flat(a + b) =~= flat(a) + flat(b));
        }
    }

    pub broadcast proof fn lemma_flat_push(s: Seq<Seq<Tok>>, x: Seq<Tok>)
        ensures #[trigger] flat(s.push(x)) == flat(s) + x,
    {
        assert(s.push(x) =~= s + seq![x]);
        lemma_flat_concat(s, seq![x]);
        assert(seq![x].drop_first() =~= Seq::<Seq<Tok>>::empty());
        assert(flat(Seq::<Seq<Tok>>::empty()) =~= Seq::<Tok>::empty());
        assert(seq![x][0] == x);
        assert(flat(seq![x]) =~= x + flat(seq![x].drop_first()));
        assert(flat(seq![x]) =~= x);
    }

    pub broadcast proof fn lemma_flat_singleton(x: Seq<Tok>)
        ensures #[trigger] flat(seq![x]) == x,
    {
        assert(seq![x].drop_first() =~= Seq::<Seq<Tok>>::empty());
        assert(flat(Seq::<Seq<Tok>>::empty()) =~= Seq::<Tok>::empty());
        assert(seq![x][0] == x);
        assert(flat(seq![x]) =~= x + flat(seq![x].drop_first()));
        assert(flat(seq![x]) =~= x);
    }

    pub broadcast proof fn lemma_flat_empty()
        ensures #[trigger] flat(Seq::<Seq<Tok>>::empty()) == Seq::<Tok>::empty(),
    {}

    pub broadcast proof fn lemma_toks_of_empty()
        ensures #[trigger] toks_of(Seq::<TokenStream>::empty()) == Seq::<Seq<Tok>>::empty(),
    { assert(toks_of(Seq::<TokenStream>::empty()) =~= Seq::<Seq<Tok>>::empty()); }

    pub broadcast group group_flat { lemma_toks_of_push, lemma_flat_concat, lemma_flat_push, lemma_flat_singleton, lemma_flat_empty, lemma_toks_of_empty }
    }
}
// ---- Option adapters: assumed contracts on core::option (trusted base) ----
verus! {

pub assume_specification<T, F> [core::option::Option::<T>::or_else] (o: Option<T>, f: F) -> (r: Option<T>)
    where F: FnOnce() -> Option<T> + core::marker::Destruct, T: core::marker::Destruct,
    requires o is None ==> f.requires(()),
    ensures
        o is Some ==> r == o,
        o is None ==> f.ensures((), r);

} // verus!

verus! {
pub assume_specification<T, U, F> [core::option::Option::<T>::map_or] (o: Option<T>, default: U, f: F) -> (r: U)
    where F: FnOnce(T) -> U + core::marker::Destruct, T: core::marker::Destruct, U: core::marker::Destruct,
    requires o is Some ==> f.requires((o->0,)),
    ensures
        o is None ==> r == default,
        o is Some ==> f.ensures((o->0,), r);

pub assume_specification<T, F> [core::option::Option::<T>::is_some_and] (o: Option<T>, f: F) -> (r: bool)
    where F: FnOnce(T) -> bool + core::marker::Destruct, T: core::marker::Destruct,
    requires o is Some ==> f.requires((o->0,)),
    ensures
        o is None ==> !r,
        o is Some ==> f.ensures((o->0,), r);
} // verus!
// ---- strings, errors, parsing: assumed contracts (trusted base) ----
pub mod str_axioms {
    use vstd::prelude::*;
    verus! {
    // pattern matching on &str uses str equality; String deref uses views.  One axiom relates the two.
    pub broadcast axiom fn axiom_str_eq_is_view_eq(a: &str, b: &str)
        ensures (a == b) == (#[trigger] a@ == #[trigger] b@);
    }
}

verus! {

#[verifier::external_body]
pub struct Error { _p: core::marker::PhantomData<()> }

pub type Result<T> = core::result::Result<T, Error>;

impl Ident {
    #[verifier::external_body]
    pub fn to_string(&self) -> (r: String)
        ensures r@ == self.name(),
    { unimplemented!() }

    #[verifier::external_body]
    pub fn span(&self) -> (r: Span) { unimplemented!() }
}

// Display of a token stream; a single identifier prints as its name (proc_macro2)
pub uninterp spec fn toks_to_string(t: Seq<Tok>) -> Seq<char>;

impl TokenStream {
    #[verifier::external_body]
    pub fn to_string(&self) -> (r: String)
        ensures
            r@ == toks_to_string(self@),
            forall|n: Seq<char>| self@ == seq![Tok::Id(n)] ==> r@ == n,
    { unimplemented!() }
}

pub assume_specification [<std::string::String as std::convert::AsRef<str>>::as_ref] (s: &std::string::String) -> (r: &str)
    ensures r@ == s@;

// the result of parsing a token stream is a function of the tokens (whatever syn does, it does it deterministically)
pub uninterp spec fn spec_parse2<T>(t: Seq<Tok>) -> Result<T>;

} // verus!

pub mod syn_parse {
    use super::*;
    verus! {
    #[verifier::external_body]
    pub fn parse2<T>(tokens: TokenStream) -> (r: Result<T>)
        ensures r == spec_parse2::<T>(tokens@),
    { unimplemented!() }
    }
}

verus! {
}

verus! {
impl Error {
    #[verifier::external_body]
    pub fn new(span: Span, message: &str) -> (r: Error) { unimplemented!() }
}
pub trait Spanned {
    fn span(&self) -> Span;
}
impl Spanned for Option<TokenStream> {
    #[verifier::external_body]
    fn span(&self) -> (r: Span) { unimplemented!() }
}
}
verus! {
// real type definitions of o2o-impl, copied byte-exact (derives dropped / replaced as logged)

pub struct TypePath {
    pub span: Span,
    pub path: TokenStream,
    pub path_str: String,
    pub generics: Option<AngleBracketedGenericArguments>,
    pub nameless_tuple: bool,
}
#[derive(Clone, Copy, PartialEq, Eq, Structural)]
pub enum Kind {
    OwnedInto,
    RefInto,
    FromOwned,
    FromRef,
    OwnedIntoExisting,
    RefIntoExisting,
}
type ApplicableTo = [bool; 6];

 struct DataTypeAttrs {
    pub attrs: Vec<TraitAttr>,
    pub ghosts_attrs: Vec<GhostsAttr>,
    pub where_attrs: Vec<WhereAttr>,
    pub child_parents_attrs: Vec<ChildParentsAttr>,

    pub error_instrs: Vec<DataTypeInstruction>,
}
type MemberRepeatFor = [bool; 5];
pub enum MemberAttrType {
    Attr,
    Child,
    Parent,
    Ghost,
    TypeHint,
}

 struct MemberRepeatAttr {
    pub permeate: bool,
    pub repeat_for: MemberRepeatFor,
}

 struct MemberAttrs {
    pub attrs: Vec<MemberAttr>,
    pub child_attrs: Vec<ChildAttr>,
    pub parent_attrs: Vec<ParentAttr>,
    pub ghost_attrs: Vec<GhostAttr>,
    pub ghosts_attrs: Vec<GhostsAttr>,
    pub lit_attrs: Vec<LitAttr>,
    pub pat_attrs: Vec<PatAttr>,
    pub repeat: Option<MemberRepeatAttr>,
    pub skip_repeat: bool,
    pub stop_repeat: bool,
    pub type_hint_attrs: Vec<VariantTypeHintAttr>,

    pub error_instrs: Vec<MemberInstruction>,
}
#[derive(Clone, Copy, PartialEq, Eq, Structural)]
 enum TypeHint {
    Unit = 0,
    Struct = 1,
    Tuple = 2,
    Unspecified = 3,
}
type TraitRepeatFor = [bool; 4];
pub enum TraitAttrType {
    Vars,
    Update,
    QuickReturn,
    DefaultCase,
}

 struct TraitAttr {
    pub core: TraitAttrCore,
    pub fallible: bool,
    pub applicable_to: ApplicableTo,
}

 struct TraitAttrCore {
    pub ty: TypePath,
    pub err_ty: Option<TypePath>,
    pub type_hint: TypeHint,
    pub init_data: Option<Punctuated<InitData, Token![,]>>,
    pub update: Option<TokenStream>,
    pub quick_return: Option<TokenStream>,
    pub default_case: Option<TokenStream>,
    pub repeat: Option<TraitRepeatFor>,
    pub skip_repeat: bool,
    pub stop_repeat: bool,
    pub attribute: Option<TokenStream>,
    pub impl_attribute: Option<TokenStream>,
    pub inner_attribute: Option<TokenStream>,
}

 struct InitData {
    pub ident: Ident,
    _colon: Token![:],
    pub action: TokenStream,
}

 struct GhostsAttr {
    pub attr: StructGhostAttrCore,
    pub applicable_to: ApplicableTo,
}

 struct StructGhostAttrCore {
    pub container_ty: Option<TypePath>,
    pub ghost_data: Punctuated<GhostData, Token![,]>,
}

 struct GhostData {
    pub child_path: Option<ChildPath>,
    pub ghost_ident: GhostIdent,
    pub action: TokenStream,
}

 enum GhostIdent {
    Member(Member),
    Destruction(TokenStream),
}

 struct ChildPath {
    pub child_path: Punctuated<Member, Token![.]>,
    pub child_path_str: Vec<String>,
}
 struct WhereAttr {
    pub container_ty: Option<TypePath>,
    pub where_clause: Punctuated<WherePredicate, Token![,]>,
}
 struct ChildParentsAttr {
    pub container_ty: Option<TypePath>,
    pub child_parents: Punctuated<ChildParentData, Token![,]>,
}
 struct ChildParentData {
    pub ty: syn::Path,
    pub type_hint: TypeHint,
    pub field_path: Punctuated<Member, Token![.]>,
    field_path_str: String,
}

 struct MemberAttr {
    pub attr: MemberAttrCore,
    pub fallible: bool,
    pub original_instr: String,
    applicable_to: ApplicableTo,
}

 struct MemberAttrCore {
    pub container_ty: Option<TypePath>,
    pub member: Option<Member>,
    pub action: Option<TokenStream>,
}

 struct ParentAttr {
    pub container_ty: Option<TypePath>,
    pub child_fields: Option<Vec<ParentChildField>>,
}

 struct ParentChildField {
    pub this_member: Member,
    pub attrs: Vec<ParentChildFieldAttr>,
    pub sub_path: Vec<(Member, Option<syn::Path>)>,
    pub sub_path_tokens: TokenStream,
}

 struct ParentChildFieldAttr {
    pub that_member: Option<Member>,
    pub action: Option<TokenStream>,
    pub applicable_to: ApplicableTo,
}

 struct GhostAttr {
    pub attr: FieldGhostAttrCore,
    pub applicable_to: ApplicableTo,
}

 struct FieldGhostAttrCore {
    pub container_ty: Option<TypePath>,
    pub action: Option<TokenStream>,
}
 enum ApplicableAttr<'a> {
    Field(&'a MemberAttrCore),
    Ghost(&'a FieldGhostAttrCore),
    ParentChildField(&'a ParentChildField, Kind),
}

 struct ChildAttr {
    pub container_ty: Option<TypePath>,
    pub child_path: ChildPath,
}

 struct AsAttr {
    pub container_ty: Option<TypePath>,
    pub member: Option<Member>,
    pub tokens: TokenStream,
}

 struct LitAttr {
    pub container_ty: Option<TypePath>,
    pub tokens: TokenStream,
}

 struct PatAttr {
    pub container_ty: Option<TypePath>,
    pub tokens: TokenStream,
}

 struct VariantTypeHintAttr {
    pub container_ty: Option<TypePath>,
    pub type_hint: TypeHint,
}
 enum DataTypeInstruction {
    Map(TraitAttr),
    Ghosts(GhostsAttr),
    Where(WhereAttr),
    ChildParents(ChildParentsAttr),
    AllowUnknown,

    Misplaced { instr: &'static str, span: Span, own: bool },
    Misnamed { instr: &'static str, span: Span, guess_name: &'static str, own: bool },
    UnrecognizedWithError { instr: String, span: Span },
    Unrecognized,
}

 enum MemberInstruction {
    Map(MemberAttr),
    Ghost(GhostAttr),
    Ghosts(GhostsAttr),
    Child(ChildAttr),
    Parent(ParentAttr),
    As(AsAttr),
    Lit(LitAttr),
    Pat(PatAttr),
    VariantTypeHint(VariantTypeHintAttr),
    Repeat(MemberRepeatAttr),
    SkipRepeat,
    StopRepeat,

    Misplaced { instr: &'static str, span: Span, own: bool },
    Misnamed { instr: &'static str, span: Span, guess_name: &'static str, own: bool },
    UnrecognizedWithError { instr: String, span: Span },
    Unrecognized,
}
 struct Struct<'a> {
    pub attrs: DataTypeAttrs,
    pub ident: &'a Ident,
    pub generics: &'a Generics,
    pub fields: Vec<Field>,
    pub named_fields: bool,
    pub unit: bool,
}

 struct Field {
    pub attrs: MemberAttrs,
    pub idx: usize,
    pub member: Member,
    pub member_str: String,
    pub ty: Option<Path>
}
 struct Enum<'a> {
    pub attrs: DataTypeAttrs,
    pub ident: &'a Ident,
    pub generics: &'a Generics,
    pub variants: Vec<Variant>,
}
 struct Variant {
    pub attrs: MemberAttrs,
    pub ident: Ident,
    _idx: usize,
    pub fields: Vec<Field>,
    pub named_fields: bool,
    pub unit: bool,
}
 enum DataType<'a> {
    Struct(&'a Struct<'a>),
    Enum(&'a Enum<'a>),
}

 enum DataTypeMember<'a> {
    Field(&'a Field),
    Variant(&'a Variant),
}
#[derive(Clone, Copy, PartialEq, Eq, Structural)]
enum ImplType {
    Struct,
    Enum,
    Variant,
}
struct ImplContext<'a> {
    input: &'a DataType<'a>,
    impl_type: ImplType,
    struct_attr: &'a TraitAttrCore,
    kind: Kind,
    dst_ty: &'a TokenStream,
    src_ty: &'a TokenStream,
    has_post_init: bool,
    fallible: bool,
}
struct ChildRenderContext<'a> {
    pub ty: &'a syn::Path,
    pub type_hint: TypeHint
}
struct QuoteTraitParams<'a> {
    pub attr: Option<&'a TokenStream>,
    pub impl_attr: Option<&'a TokenStream>,
    pub inner_attr: Option<&'a TokenStream>,
    pub dst: &'a TokenStream,
    pub src: &'a TokenStream,
    pub these_gens: TokenStream,
    pub those_gens: TokenStream,
    pub impl_gens: TokenStream,
    pub where_clause: Option<TokenStream>,
    pub r: Option<TokenStream>,
}
struct FieldContainer<'a> {
    gr_idx: usize,
    path: String,
    field_data: FieldData<'a>
}
enum FieldData<'a> {
    Field(&'a Field),
    GhostData(&'a GhostData),
    ParentChildField(&'a Field, &'a ParentChildField),
}
enum VariantData<'a> {
    Variant(&'a Variant),
    GhostData(&'a GhostData),
}
} // verus!

