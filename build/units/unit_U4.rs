#![allow(unused)]
use ::vstd::prelude::*;
    #[macro_export]
    macro_rules! quote {
        () => {
            $crate::__private::TokenStream::new()
        };

        // Special case rule for a single tt, for performance.
        ($tt:tt) => {{
            let mut _s = $crate::__private::TokenStream::new();
            $crate::quote_token!{$tt _s}
            _s
        }};

        // Special case rules for two tts, for performance.
        (# $var:ident) => {{
            let mut _s = $crate::__private::TokenStream::new();
            $crate::ToTokens::to_tokens(&$var, &mut _s);
            _s
        }};
        ($tt1:tt $tt2:tt) => {{
            let mut _s = $crate::__private::TokenStream::new();
            $crate::quote_token!{$tt1 _s}
            $crate::quote_token!{$tt2 _s}
            _s
        }};

        // Rule for any other number of tokens.
        ($($tt:tt)*) => {{
            let mut _s = $crate::__private::TokenStream::new();
            $crate::quote_each_token!{_s $($tt)*}
            _s
        }};
    }

#[macro_export]
macro_rules! quote_spanned {
    ($span:expr=> $($tt:tt)*) => {{
        let _span: $crate::__private::Span = $crate::__private::get_span($span).__into_span();
        $crate::quote_spanned_with_expanded_span!{_span $($tt)*}
    }};
}

// We want to ensure that `get_span` only gets called for the actual user
// invocation and not for recursive calls from groups, which will call this
// inner macro instead.
#[macro_export]
#[doc(hidden)]
macro_rules! quote_spanned_with_expanded_span {
    ($span:ident) => {
        $crate::__private::TokenStream::new()
    };

    // Special case rule for a single tt, for performance.
    ($span:ident $tt:tt) => {
        let mut _s = $crate::__private::TokenStream::new();
        $crate::quote_token_spanned!{$tt _s $span}
        _s
    };

    // Special case rules for two tts, for performance.
    ($span:ident # $var:ident) => {
        let mut _s = $crate::__private::TokenStream::new();
        $crate::ToTokens::to_tokens(&$var, &mut _s);
        _s
    };
    ($span:ident $tt1:tt $tt2:tt) => {
        let mut _s = $crate::__private::TokenStream::new();
        $crate::quote_token_spanned!{$tt1 _s $span}
        $crate::quote_token_spanned!{$tt2 _s $span}
        _s
    };

    // Rule for any other number of tokens.
    ($span:ident $($tt:tt)*) => {
        let mut _s = $crate::__private::TokenStream::new();
        $crate::quote_each_token_spanned!{_s $span $($tt)*}
        _s
    };
}

// Extract the names of all #metavariables and pass them to the $call macro.
//
// in:   pounded_var_names!(then!(...) a #b c #( #d )* #e)
// out:  then!(... b);
//       then!(... d);
//       then!(... e);
#[macro_export]
#[doc(hidden)]
macro_rules! pounded_var_names {
    ($call:ident! $extra:tt $($tts:tt)*) => {
        $crate::pounded_var_names_with_context!{$call! $extra
            (@ $($tts)*)
            ($($tts)* @)
        }
    };
}

#[macro_export]
#[doc(hidden)]
macro_rules! pounded_var_names_with_context {
    ($call:ident! $extra:tt ($($b1:tt)*) ($($curr:tt)*)) => {
        $(
            $crate::pounded_var_with_context!{$call! $extra $b1 $curr}
        )*
    };
}

#[macro_export]
#[doc(hidden)]
macro_rules! pounded_var_with_context {
    ($call:ident! $extra:tt $b1:tt ( $($inner:tt)* )) => {
        $crate::pounded_var_names!{$call! $extra $($inner)*}
    };

    ($call:ident! $extra:tt $b1:tt [ $($inner:tt)* ]) => {
        $crate::pounded_var_names!{$call! $extra $($inner)*}
    };

    ($call:ident! $extra:tt $b1:tt { $($inner:tt)* }) => {
        $crate::pounded_var_names!{$call! $extra $($inner)*}
    };

    ($call:ident!($($extra:tt)*) # $var:ident) => {
        $crate::$call!($($extra)* $var);
    };

    ($call:ident! $extra:tt $b1:tt $curr:tt) => {};
}

#[macro_export]
#[doc(hidden)]
macro_rules! quote_bind_into_iter {
    ($has_iter:ident $var:ident) => {
        // `mut` may be unused if $var occurs multiple times in the list.
        #[allow(unused_mut)]
        let (mut $var, i) = $var.quote_into_iter();
        let $has_iter = $has_iter | i;
    };
}

#[macro_export]
#[doc(hidden)]
macro_rules! quote_bind_next_or_break {
    ($var:ident) => {
        let $var = match $var.next() {
            Some(_x) => $crate::__private::RepInterp(_x),
            None => break,
        };
    };
}

// The obvious way to write this macro is as a tt muncher. This implementation
// does something more complex for two reasons.
//
//   - With a tt muncher it's easy to hit Rust's built-in recursion_limit, which
//     this implementation avoids because it isn't tail recursive.
//
//   - Compile times for a tt muncher are quadratic relative to the length of
//     the input. This implementation is linear, so it will be faster
//     (potentially much faster) for big inputs. However, the constant factors
//     of this implementation are higher than that of a tt muncher, so it is
//     somewhat slower than a tt muncher if there are many invocations with
//     short inputs.
//
// An invocation like this:
//
//     quote_each_token!(_s a b c d e f g h i j);
//
// expands to this:
//
//     quote_tokens_with_context!(_s
//         (@  @  @  @   @   @   a   b   c   d   e   f   g  h  i  j)
//         (@  @  @  @   @   a   b   c   d   e   f   g   h  i  j  @)
//         (@  @  @  @   a   b   c   d   e   f   g   h   i  j  @  @)
//         (@  @  @ (a) (b) (c) (d) (e) (f) (g) (h) (i) (j) @  @  @)
//         (@  @  a  b   c   d   e   f   g   h   i   j   @  @  @  @)
//         (@  a  b  c   d   e   f   g   h   i   j   @   @  @  @  @)
//         (a  b  c  d   e   f   g   h   i   j   @   @   @  @  @  @)
//     );
//
// which gets transposed and expanded to this:
//
//     quote_token_with_context!(_s @ @ @  @  @ @ a);
//     quote_token_with_context!(_s @ @ @  @  @ a b);
//     quote_token_with_context!(_s @ @ @  @  a b c);
//     quote_token_with_context!(_s @ @ @ (a) b c d);
//     quote_token_with_context!(_s @ @ a (b) c d e);
//     quote_token_with_context!(_s @ a b (c) d e f);
//     quote_token_with_context!(_s a b c (d) e f g);
//     quote_token_with_context!(_s b c d (e) f g h);
//     quote_token_with_context!(_s c d e (f) g h i);
//     quote_token_with_context!(_s d e f (g) h i j);
//     quote_token_with_context!(_s e f g (h) i j @);
//     quote_token_with_context!(_s f g h (i) j @ @);
//     quote_token_with_context!(_s g h i (j) @ @ @);
//     quote_token_with_context!(_s h i j  @  @ @ @);
//     quote_token_with_context!(_s i j @  @  @ @ @);
//     quote_token_with_context!(_s j @ @  @  @ @ @);
//
// Without having used muncher-style recursion, we get one invocation of
// quote_token_with_context for each original tt, with three tts of context on
// either side. This is enough for the longest possible interpolation form (a
// repetition with separator, as in `# (#var) , *`) to be fully represented with
// the first or last tt in the middle.
//
// The middle tt (surrounded by parentheses) is the tt being processed.
//
//   - When it is a `#`, quote_token_with_context can do an interpolation. The
//     interpolation kind will depend on the three subsequent tts.
//
//   - When it is within a later part of an interpolation, it can be ignored
//     because the interpolation has already been done.
//
//   - When it is not part of an interpolation it can be pushed as a single
//     token into the output.
//
//   - When the middle token is an unparenthesized `@`, that call is one of the
//     first 3 or last 3 calls of quote_token_with_context and does not
//     correspond to one of the original input tokens, so turns into nothing.
#[macro_export]
#[doc(hidden)]
macro_rules! quote_each_token {
    ($tokens:ident $($tts:tt)*) => {
        $crate::quote_tokens_with_context!{$tokens
            (@ @ @ @ @ @ $($tts)*)
            (@ @ @ @ @ $($tts)* @)
            (@ @ @ @ $($tts)* @ @)
            (@ @ @ $(($tts))* @ @ @)
            (@ @ $($tts)* @ @ @ @)
            (@ $($tts)* @ @ @ @ @)
            ($($tts)* @ @ @ @ @ @)
        }
    };
}

// See the explanation on quote_each_token.
#[macro_export]
#[doc(hidden)]
macro_rules! quote_each_token_spanned {
    ($tokens:ident $span:ident $($tts:tt)*) => {
        $crate::quote_tokens_with_context_spanned!{$tokens $span
            (@ @ @ @ @ @ $($tts)*)
            (@ @ @ @ @ $($tts)* @)
            (@ @ @ @ $($tts)* @ @)
            (@ @ @ $(($tts))* @ @ @)
            (@ @ $($tts)* @ @ @ @)
            (@ $($tts)* @ @ @ @ @)
            ($($tts)* @ @ @ @ @ @)
        }
    };
}

// See the explanation on quote_each_token.
#[macro_export]
#[doc(hidden)]
macro_rules! quote_tokens_with_context {
    ($tokens:ident
        ($($b3:tt)*) ($($b2:tt)*) ($($b1:tt)*)
        ($($curr:tt)*)
        ($($a1:tt)*) ($($a2:tt)*) ($($a3:tt)*)
    ) => {
        $(
            $crate::quote_token_with_context!{$tokens $b3 $b2 $b1 $curr $a1 $a2 $a3}
        )*
    };
}

// See the explanation on quote_each_token.
#[macro_export]
#[doc(hidden)]
macro_rules! quote_tokens_with_context_spanned {
    ($tokens:ident $span:ident
        ($($b3:tt)*) ($($b2:tt)*) ($($b1:tt)*)
        ($($curr:tt)*)
        ($($a1:tt)*) ($($a2:tt)*) ($($a3:tt)*)
    ) => {
        $(
            $crate::quote_token_with_context_spanned!{$tokens $span $b3 $b2 $b1 $curr $a1 $a2 $a3}
        )*
    };
}

// See the explanation on quote_each_token.
#[macro_export]
#[doc(hidden)]
macro_rules! quote_token_with_context {
    // Unparenthesized `@` indicates this call does not correspond to one of the
    // original input tokens. Ignore it.
    ($tokens:ident $b3:tt $b2:tt $b1:tt @ $a1:tt $a2:tt $a3:tt) => {};

    // [verif model] single-variable repetition
    ($tokens:ident $b3:tt $b2:tt $b1:tt (#) ( # $var:ident ) * $a3:tt) => {
        $crate::__private::push_all(&mut $tokens, &$var);
    };
    // A repetition with no separator.
    ($tokens:ident $b3:tt $b2:tt $b1:tt (#) ( $($inner:tt)* ) * $a3:tt) => {{
        use $crate::__private::ext::*;
        let has_iter = $crate::__private::HasIterator::<false>;
        $crate::pounded_var_names!{quote_bind_into_iter!(has_iter) () $($inner)*}
        <_ as $crate::__private::CheckHasIterator<true>>::check(has_iter);
        // This is `while true` instead of `loop` because if there are no
        // iterators used inside of this repetition then the body would not
        // contain any `break`, so the compiler would emit unreachable code
        // warnings on anything below the loop. We use has_iter to detect and
        // fail to compile when there are no iterators, so here we just work
        // around the unneeded extra warning.
        while true {
            $crate::pounded_var_names!{quote_bind_next_or_break!() () $($inner)*}
            $crate::quote_each_token!{$tokens $($inner)*}
        }
    }};
    // ... and one step later.
    ($tokens:ident $b3:tt $b2:tt # (( $($inner:tt)* )) * $a2:tt $a3:tt) => {};
    // ... and one step later.
    ($tokens:ident $b3:tt # ( $($inner:tt)* ) (*) $a1:tt $a2:tt $a3:tt) => {};

    // A repetition with separator.
    ($tokens:ident $b3:tt $b2:tt $b1:tt (#) ( $($inner:tt)* ) $sep:tt *) => {{
        use $crate::__private::ext::*;
        let mut _first = true;
        let has_iter = $crate::__private::HasIterator::<false>;
        $crate::pounded_var_names!{quote_bind_into_iter!(has_iter) () $($inner)*}
        <_ as $crate::__private::CheckHasIterator<true>>::check(has_iter);
        while true {
            $crate::pounded_var_names!{quote_bind_next_or_break!() () $($inner)*}
            if !_first {
                $crate::quote_token!{$sep $tokens}
            }
            _first = false;
            $crate::quote_each_token!{$tokens $($inner)*}
        }
    }};
    // ... and one step later.
    ($tokens:ident $b3:tt $b2:tt # (( $($inner:tt)* )) $sep:tt * $a3:tt) => {};
    // ... and one step later.
    ($tokens:ident $b3:tt # ( $($inner:tt)* ) ($sep:tt) * $a2:tt $a3:tt) => {};
    // (A special case for `#(var)**`, where the first `*` is treated as the
    // repetition symbol and the second `*` is treated as an ordinary token.)
    ($tokens:ident # ( $($inner:tt)* ) * (*) $a1:tt $a2:tt $a3:tt) => {
        // https://github.com/dtolnay/quote/issues/130
        $crate::quote_token!{* $tokens}
    };
    // ... and one step later.
    ($tokens:ident # ( $($inner:tt)* ) $sep:tt (*) $a1:tt $a2:tt $a3:tt) => {};

    // A non-repetition interpolation.
    ($tokens:ident $b3:tt $b2:tt $b1:tt (#) $var:ident $a2:tt $a3:tt) => {
        $crate::ToTokens::to_tokens(&$var, &mut $tokens);
    };
    // ... and one step later.
    ($tokens:ident $b3:tt $b2:tt # ($var:ident) $a1:tt $a2:tt $a3:tt) => {};

    // An ordinary token, not part of any interpolation.
    ($tokens:ident $b3:tt $b2:tt $b1:tt ($curr:tt) $a1:tt $a2:tt $a3:tt) => {
        $crate::quote_token!{$curr $tokens}
    };
}

// See the explanation on quote_each_token, and on the individual rules of
// quote_token_with_context.
#[macro_export]
#[doc(hidden)]
macro_rules! quote_token_with_context_spanned {
    ($tokens:ident $span:ident $b3:tt $b2:tt $b1:tt @ $a1:tt $a2:tt $a3:tt) => {};

    ($tokens:ident $span:ident $b3:tt $b2:tt $b1:tt (#) ( $($inner:tt)* ) * $a3:tt) => {{
        use $crate::__private::ext::*;
        let has_iter = $crate::__private::HasIterator::<false>;
        $crate::pounded_var_names!{quote_bind_into_iter!(has_iter) () $($inner)*}
        <_ as $crate::__private::CheckHasIterator<true>>::check(has_iter);
        while true {
            $crate::pounded_var_names!{quote_bind_next_or_break!() () $($inner)*}
            $crate::quote_each_token_spanned!{$tokens $span $($inner)*}
        }
    }};
    ($tokens:ident $span:ident $b3:tt $b2:tt # (( $($inner:tt)* )) * $a2:tt $a3:tt) => {};
    ($tokens:ident $span:ident $b3:tt # ( $($inner:tt)* ) (*) $a1:tt $a2:tt $a3:tt) => {};

    ($tokens:ident $span:ident $b3:tt $b2:tt $b1:tt (#) ( $($inner:tt)* ) $sep:tt *) => {{
        use $crate::__private::ext::*;
        let mut _first = true;
        let has_iter = $crate::__private::HasIterator::<false>;
        $crate::pounded_var_names!{quote_bind_into_iter!(has_iter) () $($inner)*}
        <_ as $crate::__private::CheckHasIterator<true>>::check(has_iter);
        while true {
            $crate::pounded_var_names!{quote_bind_next_or_break!() () $($inner)*}
            if !_first {
                $crate::quote_token_spanned!{$sep $tokens $span}
            }
            _first = false;
            $crate::quote_each_token_spanned!{$tokens $span $($inner)*}
        }
    }};
    ($tokens:ident $span:ident $b3:tt $b2:tt # (( $($inner:tt)* )) $sep:tt * $a3:tt) => {};
    ($tokens:ident $span:ident $b3:tt # ( $($inner:tt)* ) ($sep:tt) * $a2:tt $a3:tt) => {};
    ($tokens:ident $span:ident # ( $($inner:tt)* ) * (*) $a1:tt $a2:tt $a3:tt) => {
        // https://github.com/dtolnay/quote/issues/130
        $crate::quote_token_spanned!{* $tokens $span}
    };
    ($tokens:ident $span:ident # ( $($inner:tt)* ) $sep:tt (*) $a1:tt $a2:tt $a3:tt) => {};

    ($tokens:ident $span:ident $b3:tt $b2:tt $b1:tt (#) $var:ident $a2:tt $a3:tt) => {
        $crate::ToTokens::to_tokens(&$var, &mut $tokens);
    };
    ($tokens:ident $span:ident $b3:tt $b2:tt # ($var:ident) $a1:tt $a2:tt $a3:tt) => {};

    ($tokens:ident $span:ident $b3:tt $b2:tt $b1:tt ($curr:tt) $a1:tt $a2:tt $a3:tt) => {
        $crate::quote_token_spanned!{$curr $tokens $span}
    };
}

// These rules are ordered by approximate token frequency, at least for the
// first 10 or so, to improve compile times. Having `ident` first is by far the
// most important because it's typically 2-3x more common than the next most
// common token.
//
// Separately, we put the token being matched in the very front so that failing
// rules may fail to match as quickly as possible.
#[macro_export]
#[doc(hidden)]
macro_rules! quote_token {
    ($ident:ident $tokens:ident) => {
        $crate::__private::push_ident(
            &mut $tokens,
            $crate::__private::stringify!($ident),
        );
    };

    (:: $tokens:ident) => {
        $crate::__private::push_colon2(&mut $tokens);
    };

    (( $($inner:tt)* ) $tokens:ident) => {
        $crate::__private::push_group(
            &mut $tokens,
            $crate::__private::Delimiter::Parenthesis,
            $crate::quote!($($inner)*),
        );
    };

    ([ $($inner:tt)* ] $tokens:ident) => {
        $crate::__private::push_group(
            &mut $tokens,
            $crate::__private::Delimiter::Bracket,
            $crate::quote!($($inner)*),
        );
    };

    ({ $($inner:tt)* } $tokens:ident) => {
        $crate::__private::push_group(
            &mut $tokens,
            $crate::__private::Delimiter::Brace,
            $crate::quote!($($inner)*),
        );
    };

    (# $tokens:ident) => {
        $crate::__private::push_pound(&mut $tokens);
    };

    (, $tokens:ident) => {
        $crate::__private::push_comma(&mut $tokens);
    };

    (. $tokens:ident) => {
        $crate::__private::push_dot(&mut $tokens);
    };

    (; $tokens:ident) => {
        $crate::__private::push_semi(&mut $tokens);
    };

    (: $tokens:ident) => {
        $crate::__private::push_colon(&mut $tokens);
    };

    (+ $tokens:ident) => {
        $crate::__private::push_add(&mut $tokens);
    };

    (+= $tokens:ident) => {
        $crate::__private::push_add_eq(&mut $tokens);
    };

    (& $tokens:ident) => {
        $crate::__private::push_and(&mut $tokens);
    };

    (&& $tokens:ident) => {
        $crate::__private::push_and_and(&mut $tokens);
    };

    (&= $tokens:ident) => {
        $crate::__private::push_and_eq(&mut $tokens);
    };

    (@ $tokens:ident) => {
        $crate::__private::push_at(&mut $tokens);
    };

    (! $tokens:ident) => {
        $crate::__private::push_bang(&mut $tokens);
    };

    (^ $tokens:ident) => {
        $crate::__private::push_caret(&mut $tokens);
    };

    (^= $tokens:ident) => {
        $crate::__private::push_caret_eq(&mut $tokens);
    };

    (/ $tokens:ident) => {
        $crate::__private::push_div(&mut $tokens);
    };

    (/= $tokens:ident) => {
        $crate::__private::push_div_eq(&mut $tokens);
    };

    (.. $tokens:ident) => {
        $crate::__private::push_dot2(&mut $tokens);
    };

    (... $tokens:ident) => {
        $crate::__private::push_dot3(&mut $tokens);
    };

    (..= $tokens:ident) => {
        $crate::__private::push_dot_dot_eq(&mut $tokens);
    };

    (= $tokens:ident) => {
        $crate::__private::push_eq(&mut $tokens);
    };

    (== $tokens:ident) => {
        $crate::__private::push_eq_eq(&mut $tokens);
    };

    (>= $tokens:ident) => {
        $crate::__private::push_ge(&mut $tokens);
    };

    (> $tokens:ident) => {
        $crate::__private::push_gt(&mut $tokens);
    };

    (<= $tokens:ident) => {
        $crate::__private::push_le(&mut $tokens);
    };

    (< $tokens:ident) => {
        $crate::__private::push_lt(&mut $tokens);
    };

    (*= $tokens:ident) => {
        $crate::__private::push_mul_eq(&mut $tokens);
    };

    (!= $tokens:ident) => {
        $crate::__private::push_ne(&mut $tokens);
    };

    (| $tokens:ident) => {
        $crate::__private::push_or(&mut $tokens);
    };

    (|= $tokens:ident) => {
        $crate::__private::push_or_eq(&mut $tokens);
    };

    (|| $tokens:ident) => {
        $crate::__private::push_or_or(&mut $tokens);
    };

    (? $tokens:ident) => {
        $crate::__private::push_question(&mut $tokens);
    };

    (-> $tokens:ident) => {
        $crate::__private::push_rarrow(&mut $tokens);
    };

    (<- $tokens:ident) => {
        $crate::__private::push_larrow(&mut $tokens);
    };

    (% $tokens:ident) => {
        $crate::__private::push_rem(&mut $tokens);
    };

    (%= $tokens:ident) => {
        $crate::__private::push_rem_eq(&mut $tokens);
    };

    (=> $tokens:ident) => {
        $crate::__private::push_fat_arrow(&mut $tokens);
    };

    (<< $tokens:ident) => {
        $crate::__private::push_shl(&mut $tokens);
    };

    (<<= $tokens:ident) => {
        $crate::__private::push_shl_eq(&mut $tokens);
    };

    (>> $tokens:ident) => {
        $crate::__private::push_shr(&mut $tokens);
    };

    (>>= $tokens:ident) => {
        $crate::__private::push_shr_eq(&mut $tokens);
    };

    (* $tokens:ident) => {
        $crate::__private::push_star(&mut $tokens);
    };

    (- $tokens:ident) => {
        $crate::__private::push_sub(&mut $tokens);
    };

    (-= $tokens:ident) => {
        $crate::__private::push_sub_eq(&mut $tokens);
    };

    ($lifetime:lifetime $tokens:ident) => {
        $crate::__private::push_lifetime(
            &mut $tokens,
            $crate::__private::stringify!($lifetime),
        );
    };

    (_ $tokens:ident) => {
        $crate::__private::push_underscore(&mut $tokens);
    };

    ($other:tt $tokens:ident) => {
        $crate::__private::parse(
            &mut $tokens,
            $crate::__private::stringify!($other),
        );
    };
}

// See the comment above `quote_token!` about the rule ordering.
#[macro_export]
#[doc(hidden)]
macro_rules! quote_token_spanned {
    ($ident:ident $tokens:ident $span:ident) => {
        $crate::__private::push_ident_spanned(
            &mut $tokens,
            $span,
            $crate::__private::stringify!($ident),
        );
    };

    (:: $tokens:ident $span:ident) => {
        $crate::__private::push_colon2_spanned(&mut $tokens, $span);
    };

    (( $($inner:tt)* ) $tokens:ident $span:ident) => {
        $crate::__private::push_group_spanned(
            &mut $tokens,
            $span,
            $crate::__private::Delimiter::Parenthesis,
            {
                $crate::quote_spanned_with_expanded_span!{$span $($inner)*}
            },
        );
    };

    ([ $($inner:tt)* ] $tokens:ident $span:ident) => {
        $crate::__private::push_group_spanned(
            &mut $tokens,
            $span,
            $crate::__private::Delimiter::Bracket,
            {
                $crate::quote_spanned_with_expanded_span!{$span $($inner)*}
            },
        );
    };

    ({ $($inner:tt)* } $tokens:ident $span:ident) => {
        $crate::__private::push_group_spanned(
            &mut $tokens,
            $span,
            $crate::__private::Delimiter::Brace,
            {
                $crate::quote_spanned_with_expanded_span!{$span $($inner)*}
            },
        );
    };

    (# $tokens:ident $span:ident) => {
        $crate::__private::push_pound_spanned(&mut $tokens, $span);
    };

    (, $tokens:ident $span:ident) => {
        $crate::__private::push_comma_spanned(&mut $tokens, $span);
    };

    (. $tokens:ident $span:ident) => {
        $crate::__private::push_dot_spanned(&mut $tokens, $span);
    };

    (; $tokens:ident $span:ident) => {
        $crate::__private::push_semi_spanned(&mut $tokens, $span);
    };

    (: $tokens:ident $span:ident) => {
        $crate::__private::push_colon_spanned(&mut $tokens, $span);
    };

    (+ $tokens:ident $span:ident) => {
        $crate::__private::push_add_spanned(&mut $tokens, $span);
    };

    (+= $tokens:ident $span:ident) => {
        $crate::__private::push_add_eq_spanned(&mut $tokens, $span);
    };

    (& $tokens:ident $span:ident) => {
        $crate::__private::push_and_spanned(&mut $tokens, $span);
    };

    (&& $tokens:ident $span:ident) => {
        $crate::__private::push_and_and_spanned(&mut $tokens, $span);
    };

    (&= $tokens:ident $span:ident) => {
        $crate::__private::push_and_eq_spanned(&mut $tokens, $span);
    };

    (@ $tokens:ident $span:ident) => {
        $crate::__private::push_at_spanned(&mut $tokens, $span);
    };

    (! $tokens:ident $span:ident) => {
        $crate::__private::push_bang_spanned(&mut $tokens, $span);
    };

    (^ $tokens:ident $span:ident) => {
        $crate::__private::push_caret_spanned(&mut $tokens, $span);
    };

    (^= $tokens:ident $span:ident) => {
        $crate::__private::push_caret_eq_spanned(&mut $tokens, $span);
    };

    (/ $tokens:ident $span:ident) => {
        $crate::__private::push_div_spanned(&mut $tokens, $span);
    };

    (/= $tokens:ident $span:ident) => {
        $crate::__private::push_div_eq_spanned(&mut $tokens, $span);
    };

    (.. $tokens:ident $span:ident) => {
        $crate::__private::push_dot2_spanned(&mut $tokens, $span);
    };

    (... $tokens:ident $span:ident) => {
        $crate::__private::push_dot3_spanned(&mut $tokens, $span);
    };

    (..= $tokens:ident $span:ident) => {
        $crate::__private::push_dot_dot_eq_spanned(&mut $tokens, $span);
    };

    (= $tokens:ident $span:ident) => {
        $crate::__private::push_eq_spanned(&mut $tokens, $span);
    };

    (== $tokens:ident $span:ident) => {
        $crate::__private::push_eq_eq_spanned(&mut $tokens, $span);
    };

    (>= $tokens:ident $span:ident) => {
        $crate::__private::push_ge_spanned(&mut $tokens, $span);
    };

    (> $tokens:ident $span:ident) => {
        $crate::__private::push_gt_spanned(&mut $tokens, $span);
    };

    (<= $tokens:ident $span:ident) => {
        $crate::__private::push_le_spanned(&mut $tokens, $span);
    };

    (< $tokens:ident $span:ident) => {
        $crate::__private::push_lt_spanned(&mut $tokens, $span);
    };

    (*= $tokens:ident $span:ident) => {
        $crate::__private::push_mul_eq_spanned(&mut $tokens, $span);
    };

    (!= $tokens:ident $span:ident) => {
        $crate::__private::push_ne_spanned(&mut $tokens, $span);
    };

    (| $tokens:ident $span:ident) => {
        $crate::__private::push_or_spanned(&mut $tokens, $span);
    };

    (|= $tokens:ident $span:ident) => {
        $crate::__private::push_or_eq_spanned(&mut $tokens, $span);
    };

    (|| $tokens:ident $span:ident) => {
        $crate::__private::push_or_or_spanned(&mut $tokens, $span);
    };

    (? $tokens:ident $span:ident) => {
        $crate::__private::push_question_spanned(&mut $tokens, $span);
    };

    (-> $tokens:ident $span:ident) => {
        $crate::__private::push_rarrow_spanned(&mut $tokens, $span);
    };

    (<- $tokens:ident $span:ident) => {
        $crate::__private::push_larrow_spanned(&mut $tokens, $span);
    };

    (% $tokens:ident $span:ident) => {
        $crate::__private::push_rem_spanned(&mut $tokens, $span);
    };

    (%= $tokens:ident $span:ident) => {
        $crate::__private::push_rem_eq_spanned(&mut $tokens, $span);
    };

    (=> $tokens:ident $span:ident) => {
        $crate::__private::push_fat_arrow_spanned(&mut $tokens, $span);
    };

    (<< $tokens:ident $span:ident) => {
        $crate::__private::push_shl_spanned(&mut $tokens, $span);
    };

    (<<= $tokens:ident $span:ident) => {
        $crate::__private::push_shl_eq_spanned(&mut $tokens, $span);
    };

    (>> $tokens:ident $span:ident) => {
        $crate::__private::push_shr_spanned(&mut $tokens, $span);
    };

    (>>= $tokens:ident $span:ident) => {
        $crate::__private::push_shr_eq_spanned(&mut $tokens, $span);
    };

    (* $tokens:ident $span:ident) => {
        $crate::__private::push_star_spanned(&mut $tokens, $span);
    };

    (- $tokens:ident $span:ident) => {
        $crate::__private::push_sub_spanned(&mut $tokens, $span);
    };

    (-= $tokens:ident $span:ident) => {
        $crate::__private::push_sub_eq_spanned(&mut $tokens, $span);
    };

    ($lifetime:lifetime $tokens:ident $span:ident) => {
        $crate::__private::push_lifetime_spanned(
            &mut $tokens,
            $span,
            $crate::__private::stringify!($lifetime),
        );
    };

    (_ $tokens:ident $span:ident) => {
        $crate::__private::push_underscore_spanned(&mut $tokens, $span);
    };

    ($other:tt $tokens:ident $span:ident) => {
        $crate::__private::parse_spanned(
            &mut $tokens,
            $span,
            $crate::__private::stringify!($other),
        );
    };
}

// ---- token model (trusted base) ----
verus! {

pub enum Delimiter { Parenthesis, Brace, Bracket, None }

pub enum Tok {
    Id(Seq<char>),
    P(Seq<char>),
    Lt(Seq<char>),
    Other(Seq<char>),
    Open(Delimiter),
    Close(Delimiter),
    Int(int),
}

pub type Toks = Seq<Tok>;

pub open spec fn id(s: &str) -> Toks { seq![Tok::Id(s@)] }
pub open spec fn p(s: &str) -> Toks { seq![Tok::P(s@)] }
pub open spec fn lt(s: &str) -> Toks { seq![Tok::Lt(s@)] }
pub open spec fn grp(d: Delimiter, inner: Toks) -> Toks { seq![Tok::Open(d)] + inner + seq![Tok::Close(d)] }
pub open spec fn paren(inner: Toks) -> Toks { grp(Delimiter::Parenthesis, inner) }
pub open spec fn brace(inner: Toks) -> Toks { grp(Delimiter::Brace, inner) }
pub open spec fn bracket(inner: Toks) -> Toks { grp(Delimiter::Bracket, inner) }
pub open spec fn nil() -> Toks { Seq::<Tok>::empty() }

#[verifier::external_body]
pub struct TokenStream { _p: ::core::marker::PhantomData<()> }

impl View for TokenStream {
    type V = Seq<Tok>;
    uninterp spec fn view(&self) -> Seq<Tok>;
}

impl TokenStream {
    #[verifier::external_body]
    pub fn new() -> (r: TokenStream)
        ensures r@ =~= nil(),
    { unimplemented!() }
}

impl Clone for TokenStream {
    #[verifier::external_body]
    fn clone(&self) -> (r: TokenStream)
        ensures r@ == self@,
    { unimplemented!() }
}

pub trait ToTokens {
    spec fn toks(&self) -> Seq<Tok>;

    fn to_tokens(&self, tokens: &mut TokenStream)
        ensures final(tokens)@ == old(tokens)@ + self.toks();

    fn to_token_stream(&self) -> (r: TokenStream)
        ensures r@ == self.toks();
}

impl ToTokens for TokenStream {
    open spec fn toks(&self) -> Seq<Tok> { self@ }
    #[verifier::external_body]
    fn to_tokens(&self, tokens: &mut TokenStream) { unimplemented!() }
    #[verifier::external_body]
    fn to_token_stream(&self) -> (r: TokenStream) { unimplemented!() }
}

impl<T: ToTokens> ToTokens for Option<T> {
    open spec fn toks(&self) -> Seq<Tok> {
        match self { Some(t) => t.toks(), None => nil() }
    }
    #[verifier::external_body]
    fn to_tokens(&self, tokens: &mut TokenStream) { unimplemented!() }
    #[verifier::external_body]
    fn to_token_stream(&self) -> (r: TokenStream) { unimplemented!() }
}

impl<'a, T: ToTokens + ?Sized> ToTokens for &'a T {
    open spec fn toks(&self) -> Seq<Tok> { (**self).toks() }
    #[verifier::external_body]
    fn to_tokens(&self, tokens: &mut TokenStream) { unimplemented!() }
    #[verifier::external_body]
    fn to_token_stream(&self) -> (r: TokenStream) { unimplemented!() }
}

} // verus!

pub mod __private {
    pub use ::core::stringify;
    pub use super::__private_rep::push_all;
    pub use super::TokenStream;
    pub use super::Delimiter;
    use super::*;
    verus! {
    #[verifier::external_body]
    pub fn push_ident(tokens: &mut TokenStream, s: &str)
        ensures final(tokens)@ == old(tokens)@ + id(s),
    { unimplemented!() }
    #[verifier::external_body]
    pub fn push_lifetime(tokens: &mut TokenStream, s: &str)
        ensures final(tokens)@ == old(tokens)@ + lt(s),
    { unimplemented!() }
    #[verifier::external_body]
    pub fn parse(tokens: &mut TokenStream, s: &str)
        ensures final(tokens)@ == old(tokens)@ + seq![Tok::Other(s@)],
    { unimplemented!() }
    #[verifier::external_body]
    pub fn push_group(tokens: &mut TokenStream, delimiter: Delimiter, inner: TokenStream)
        ensures final(tokens)@ == old(tokens)@ + grp(delimiter, inner@),
    { unimplemented!() }
    }
    macro_rules! push_punct {
        ($($name:ident $s:literal)*) => { verus! { $(
            #[verifier::external_body]
            pub fn $name(tokens: &mut TokenStream)
                ensures final(tokens)@ == old(tokens)@ + p($s),
            { unimplemented!() }
        )* } };
    }
    push_punct! {
        push_add "+" push_add_eq "+=" push_and "&" push_and_and "&&" push_and_eq "&=" push_at "@" push_bang "!"
        push_caret "^" push_caret_eq "^=" push_colon ":" push_colon2 "::" push_comma "," push_div "/" push_div_eq "/="
        push_dot "." push_dot2 ".." push_dot3 "..." push_dot_dot_eq "..=" push_eq "=" push_eq_eq "==" push_ge ">="
        push_gt ">" push_le "<=" push_lt "<" push_mul_eq "*=" push_ne "!=" push_or "|" push_or_eq "|=" push_or_or "||"
        push_pound "#" push_question "?" push_rarrow "->" push_larrow "<-" push_rem "%" push_rem_eq "%=" push_fat_arrow "=>"
        push_semi ";" push_shl "<<" push_shl_eq "<<=" push_shr ">>" push_shr_eq ">>=" push_star "*" push_sub "-" push_sub_eq "-="
        push_underscore "_"
    }
}

// ---- [verif model] quote's single-variable repetition `#(#v)*` ----
verus! {
// concatenation of a sequence of token sequences
pub open spec fn flat(s: Seq<Seq<Tok>>) -> Seq<Tok>
    decreases s.len(),
{
    if s.len() == 0 { Seq::<Tok>::empty() } else { s[0] + flat(s.drop_first()) }
}

pub trait RepToTokens {
    // the token sequences of the elements, in iteration order
    spec fn rep_toks(&self) -> Seq<Seq<Tok>>;
}
}
pub mod __private_rep {
    use super::*;
    verus! {
    #[verifier::external_body]
    pub fn push_all<T: RepToTokens>(tokens: &mut TokenStream, v: &T)
        ensures final(tokens)@ == old(tokens)@ + flat(v.rep_toks()),
    { unimplemented!() }
    }
}
// ---- dependency stubs: assumed contracts on proc_macro2 / syn / quote / std (trusted base) ----
// Nothing in this file is code of /repo.  Every fn here is external_body: its contract is ASSUMED.

macro_rules! format_ident {
    ("f{}", $e:expr) => { mk_f_ident(&$e) };
}

macro_rules! Token {
    [,] => { Comma };
    [.] => { Dot };
    [:] => { Colon };
}

verus! {

pub struct Comma {}
pub struct Dot {}
pub struct Colon {}

pub struct Span {}

impl Span {
    #[verifier::external_body]
    pub fn call_site() -> (r: Span) { unimplemented!() }
}

impl Clone for Span {
    #[verifier::external_body]
    fn clone(&self) -> (r: Span) { unimplemented!() }
}
impl Copy for Span {}

// ---------------------------------------------------------------- Ident / Index / Member (mirrors syn)
#[verifier::external_body]
pub struct Ident { _p: ::core::marker::PhantomData<()> }

impl Ident {
    pub uninterp spec fn name(&self) -> Seq<char>;
}

impl Clone for Ident {
    #[verifier::external_body]
    fn clone(&self) -> (r: Ident)
        ensures r == *self,
    { unimplemented!() }
}

impl ToTokens for Ident {
    open spec fn toks(&self) -> Seq<Tok> { seq![Tok::Id(self.name())] }
    #[verifier::external_body]
    fn to_tokens(&self, tokens: &mut TokenStream) { unimplemented!() }
    #[verifier::external_body]
    fn to_token_stream(&self) -> (r: TokenStream) { unimplemented!() }
}

pub struct Index { pub index: u32, pub span: Span }

impl Clone for Index {
    #[verifier::external_body]
    fn clone(&self) -> (r: Index)
        ensures r == *self,
    { unimplemented!() }
}

impl ToTokens for Index {
    open spec fn toks(&self) -> Seq<Tok> { seq![Tok::Int(self.index as int)] }
    #[verifier::external_body]
    fn to_tokens(&self, tokens: &mut TokenStream) { unimplemented!() }
    #[verifier::external_body]
    fn to_token_stream(&self) -> (r: TokenStream) { unimplemented!() }
}

pub enum Member { Named(Ident), Unnamed(Index) }
pub use Member::{Named, Unnamed};

impl Clone for Member {
    #[verifier::external_body]
    fn clone(&self) -> (r: Member)
        ensures r == *self,
    { unimplemented!() }
}

impl ToTokens for Member {
    open spec fn toks(&self) -> Seq<Tok> {
        match self { Member::Named(i) => i.toks(), Member::Unnamed(i) => i.toks() }
    }
    #[verifier::external_body]
    fn to_tokens(&self, tokens: &mut TokenStream) { unimplemented!() }
    #[verifier::external_body]
    fn to_token_stream(&self) -> (r: TokenStream) { unimplemented!() }
}

// ---------------------------------------------------------------- format_ident!("f{}", e)
// model: the identifier whose name is "f" followed by the fragment text of e; decimal text of an integer is `dec(n)`
pub uninterp spec fn dec(n: int) -> Seq<char>;
pub open spec fn f_name(frag: Seq<char>) -> Seq<char> { seq!['f'] + frag }
pub open spec fn f_tok(n: int) -> Toks { seq![Tok::Id(f_name(dec(n)))] }

pub trait IdentFragment {
    spec fn frag(&self) -> Seq<char>;
}
impl IdentFragment for usize { open spec fn frag(&self) -> Seq<char> { dec(*self as int) } }
impl IdentFragment for u32 { open spec fn frag(&self) -> Seq<char> { dec(*self as int) } }
impl IdentFragment for Member {
    open spec fn frag(&self) -> Seq<char> {
        match self { Member::Named(i) => i.name(), Member::Unnamed(i) => dec(i.index as int) }
    }
}

#[verifier::external_body]
pub fn mk_f_ident<T: IdentFragment>(e: &T) -> (r: Ident)
    ensures r.name() == f_name(e.frag()),
{ unimplemented!() }

// ---------------------------------------------------------------- opaque syn values that only flow into tokens
#[verifier::external_body]
#[verifier::reject_recursive_types(T)]
#[verifier::reject_recursive_types(P)]
pub struct Punctuated<T, P> { _p: ::core::marker::PhantomData<(T, P)> }
impl<T, P> Punctuated<T, P> {
    pub uninterp spec fn ptoks(&self) -> Seq<Tok>;
    // the elements, in order
    pub uninterp spec fn pseq(&self) -> Seq<T>;
}
impl<T, P> ToTokens for Punctuated<T, P> {
    open spec fn toks(&self) -> Seq<Tok> { self.ptoks() }
    #[verifier::external_body]
    fn to_tokens(&self, tokens: &mut TokenStream) { unimplemented!() }
    #[verifier::external_body]
    fn to_token_stream(&self) -> (r: TokenStream) { unimplemented!() }
}
impl<T, P> Clone for Punctuated<T, P> {
    #[verifier::external_body]
    fn clone(&self) -> (r: Self) ensures r == *self, { unimplemented!() }
}

#[verifier::external_body]
pub struct Path { _p: ::core::marker::PhantomData<()> }
impl Path { pub uninterp spec fn ptoks(&self) -> Seq<Tok>; }
impl ToTokens for Path {
    open spec fn toks(&self) -> Seq<Tok> { self.ptoks() }
    #[verifier::external_body]
    fn to_tokens(&self, tokens: &mut TokenStream) { unimplemented!() }
    #[verifier::external_body]
    fn to_token_stream(&self) -> (r: TokenStream) { unimplemented!() }
}
impl Clone for Path {
    #[verifier::external_body]
    fn clone(&self) -> (r: Self) ensures r == *self, { unimplemented!() }
}

#[verifier::external_body]
pub struct Generics { _p: ::core::marker::PhantomData<()> }
impl Generics { pub uninterp spec fn ptoks(&self) -> Seq<Tok>; }
impl ToTokens for Generics {
    open spec fn toks(&self) -> Seq<Tok> { self.ptoks() }
    #[verifier::external_body]
    fn to_tokens(&self, tokens: &mut TokenStream) { unimplemented!() }
    #[verifier::external_body]
    fn to_token_stream(&self) -> (r: TokenStream) { unimplemented!() }
}

#[verifier::external_body]
pub struct AngleBracketedGenericArguments { _p: ::core::marker::PhantomData<()> }
impl AngleBracketedGenericArguments { pub uninterp spec fn ptoks(&self) -> Seq<Tok>; }
impl ToTokens for AngleBracketedGenericArguments {
    open spec fn toks(&self) -> Seq<Tok> { self.ptoks() }
    #[verifier::external_body]
    fn to_tokens(&self, tokens: &mut TokenStream) { unimplemented!() }
    #[verifier::external_body]
    fn to_token_stream(&self) -> (r: TokenStream) { unimplemented!() }
}
impl Clone for AngleBracketedGenericArguments {
    #[verifier::external_body]
    fn clone(&self) -> (r: Self) ensures r == *self, { unimplemented!() }
}

#[verifier::external_body]
pub struct WherePredicate { _p: ::core::marker::PhantomData<()> }

} // verus!

verus! {
#[verifier::external_body]
pub struct SynType { _p: ::core::marker::PhantomData<()> }
impl SynType { pub uninterp spec fn ptoks(&self) -> Seq<Tok>; }
impl ToTokens for SynType {
    open spec fn toks(&self) -> Seq<Tok> { self.ptoks() }
    #[verifier::external_body]
    fn to_tokens(&self, tokens: &mut TokenStream) { unimplemented!() }
    #[verifier::external_body]
    fn to_token_stream(&self) -> (r: TokenStream) { unimplemented!() }
}
pub struct SynField { pub ty: SynType }
}

pub mod syn {
    pub use super::Error;
    pub use super::SynField as Field;
    pub use super::SynType as Type;
    pub use super::syn_parse::parse2;
    pub use super::Path;
    pub use super::Member;
    pub use super::Index;
}
// ---- container stubs: assumed contracts on Vec / slice::Iter / Option adapters (trusted base) ----
verus! {

#[verifier::external_body]
#[verifier::reject_recursive_types(T)]
pub struct Vec<T> { _p: ::core::marker::PhantomData<T> }

impl<T> View for Vec<T> {
    type V = Seq<T>;
    uninterp spec fn view(&self) -> Seq<T>;
}

impl<T> Vec<T> {
    #[verifier::external_body]
    pub fn new() -> (r: Vec<T>)
        ensures r@ =~= Seq::<T>::empty(),
    { unimplemented!() }

    #[verifier::external_body]
    pub fn is_empty(&self) -> (r: bool)
        ensures r == (self@.len() == 0),
    { unimplemented!() }

    #[verifier::external_body]
    pub fn iter<'a>(&'a self) -> (r: Iter<'a, T>)
        ensures r@ == self@, r.items() == refs(self@),
    { unimplemented!() }

    #[verifier::external_body]
    pub fn push(&mut self, t: T)
        ensures final(self)@ == old(self)@.push(t),
    { unimplemented!() }

    #[verifier::external_body]
    pub fn extend<I: IntoIter<Item = T>>(&mut self, other: I)
        ensures final(self)@ == old(self)@ + other.into_items(),
    { unimplemented!() }
}

impl<T> Vec<T> {
    #[verifier::external_body]
    pub fn len(&self) -> (r: usize)
        ensures r == self@.len(),
    { unimplemented!() }

    #[verifier::external_body]
    pub fn first(&self) -> (r: Option<&T>)
        ensures self@.len() == 0 ==> r is None, self@.len() > 0 ==> r == Some(&self@[0]),
    { unimplemented!() }

    #[verifier::external_body]
    pub fn last(&self) -> (r: Option<&T>)
        ensures self@.len() == 0 ==> r is None, self@.len() > 0 ==> r == Some(&self@[self@.len() - 1]),
    { unimplemented!() }
}

// v[i]
impl<T> ::vstd::std_specs::core::IndexSpecImpl<usize> for Vec<T> {
    open spec fn index_req(&self, index: &usize) -> bool { *index < self@.len() }
}
impl<T> ::core::ops::Index<usize> for Vec<T> {
    type Output = T;
    #[verifier::external_body]
    fn index(&self, index: usize) -> (r: &T)
        ensures *r == self@[index as int],
    { unimplemented!() }
}

impl<T: Clone> Clone for Vec<T> {
    #[verifier::external_body]
    fn clone(&self) -> (r: Vec<T>)
        ensures r@ == self@,
    { unimplemented!() }
}

impl<T> Default for Vec<T> {
    #[verifier::external_body]
    fn default() -> (r: Vec<T>)
        ensures r@ =~= Seq::<T>::empty(),
    { unimplemented!() }
}

#[verifier::external_body]
#[verifier::reject_recursive_types(T)]
pub struct Iter<'a, T> { _p: ::core::marker::PhantomData<&'a T> }

impl<'a, T> View for Iter<'a, T> {
    type V = Seq<T>;
    uninterp spec fn view(&self) -> Seq<T>;
}

} // verus!

// ---------------------------------------------------------------- iterator adapters (ASSUMED contracts on ::core::iter)
verus! {

// first element of `s` satisfying `q`
pub open spec fn first<T>(s: Seq<T>, q: spec_fn(T) -> bool) -> Option<T>
    decreases s.len(),
{
    if s.len() == 0 {
        None
    } else if q(s[0]) {
        Some(s[0])
    } else {
        first(s.drop_first(), q)
    }
}

// the subsequence of the elements satisfying `q`, order kept
pub open spec fn sfilter<T>(s: Seq<T>, q: spec_fn(T) -> bool) -> Seq<T>
    decreases s.len(),
{
    if s.len() == 0 {
        Seq::<T>::empty()
    } else if q(s[0]) {
        seq![s[0]] + sfilter(s.drop_first(), q)
    } else {
        sfilter(s.drop_first(), q)
    }
}

// every element of `s` satisfies `q`
pub open spec fn sall<T>(s: Seq<T>, q: spec_fn(T) -> bool) -> bool { forall|i: int| 0 <= i < s.len() ==> q(#[trigger] s[i]) }

// the sequence of references to the elements of `s` (what slice::Iter yields)
pub open spec fn refs<'a, T>(s: Seq<T>) -> Seq<&'a T> { Seq::new(s.len(), |i: int| &s[i]) }

// an executable predicate closure `f` decides the spec predicate `q`
pub open spec fn decides<T, F: Fn(&T) -> bool>(f: F, q: spec_fn(T) -> bool) -> bool {
    &&& forall|t: T| #[trigger] f.requires((&t,))
    &&& forall|t: T| #[trigger] f.ensures((&t,), true) ==> q(t)
    &&& forall|t: T| #[trigger] f.ensures((&t,), false) ==> !q(t)
}

pub trait IntoIter {
    type Item;
    // the elements it yields when iterated
    spec fn into_items(&self) -> Seq<Self::Item>;
}

pub trait FromIter<T>: Sized {
    // the elements the collection was built from, in order
    spec fn collected(&self) -> Seq<T>;
}

// concatenation of a sequence of sequences
pub open spec fn sflat<A>(s: Seq<Seq<A>>) -> Seq<A>
    decreases s.len(),
{
    if s.len() == 0 { Seq::<A>::empty() } else { s[0] + sflat(s.drop_first()) }
}

pub trait Iterator: Sized {
    type Item;

    // the elements still to be yielded
    spec fn items(&self) -> Seq<Self::Item>;

    // ::core::iter::Iterator::find: the first element on which the predicate returns true
    fn find<P: Fn(&Self::Item) -> bool>(&mut self, predicate: P) -> (r: Option<Self::Item>)
        requires forall|t: Self::Item| #[trigger] predicate.requires((&t,)),
        ensures forall|q: spec_fn(Self::Item) -> bool| decides(predicate, q) ==> r == #[trigger] first(old(self).items(), q);

    // ::core::iter::Iterator::filter: the subsequence on which the predicate returns true
    fn filter<P: Fn(&Self::Item) -> bool>(self, predicate: P) -> (r: Filter<Self::Item, P>)
        requires forall|t: Self::Item| #[trigger] predicate.requires((&t,)),
        ensures forall|q: spec_fn(Self::Item) -> bool| decides(predicate, q) ==> r.fitems() == #[trigger] sfilter(self.items(), q);

    // ::core::iter::Iterator::map: functional form (closure computes g) and relational form (i-th output is what the
    // closure returns on the i-th input)
    fn map<B, F: Fn(Self::Item) -> B>(self, f: F) -> (r: Map<B, F>)
        requires forall|i: int| 0 <= i < self.items().len() ==> f.requires((#[trigger] self.items()[i],)),
        ensures
            forall|g: spec_fn(Self::Item) -> B| (forall|t: Self::Item, b: B| #[trigger] f.ensures((t,), b) ==> b == g(t))
                ==> r.mitems() == #[trigger] self.items().map_values(g),
            r.mitems().len() == self.items().len(),
            forall|i: int| 0 <= i < self.items().len() ==> f.ensures((self.items()[i],), #[trigger] r.mitems()[i]);

    // ::core::iter::Iterator::flat_map: the concatenation of what the closure yields for each element
    fn flat_map<U: IntoIter, F: Fn(Self::Item) -> U>(self, f: F) -> (r: FlatMap<U::Item>)
        requires forall|t: Self::Item| #[trigger] f.requires((t,)),
        ensures forall|g: spec_fn(Self::Item) -> Seq<U::Item>|
            (forall|t: Self::Item, u: U| #[trigger] f.ensures((t,), u) ==> u.into_items() == g(t))
            ==> r.fmitems() == #[trigger] sflat(self.items().map_values(g));

    // ::core::iter::Iterator::collect
    fn collect<B: FromIter<Self::Item>>(self) -> (r: B)
        ensures r.collected() == self.items();

    // ::core::iter::Iterator::chain
    fn chain<U: IntoIter<Item = Self::Item>>(self, other: U) -> (r: Chain<Self::Item>)
        ensures r.citems() == self.items() + other.into_items();

    // ::core::iter::Iterator::any
    fn any<P: Fn(Self::Item) -> bool>(&mut self, predicate: P) -> (r: bool)
        requires forall|t: Self::Item| #[trigger] predicate.requires((t,)),
        ensures forall|q: spec_fn(Self::Item) -> bool|
            ((forall|t: Self::Item| #[trigger] predicate.ensures((t,), true) ==> q(t)) && (forall|t: Self::Item| #[trigger] predicate.ensures((t,), false) ==> !q(t)))
            ==> r == (#[trigger] first(old(self).items(), q) is Some);

    // ::core::iter::Iterator::all
    fn all<P: Fn(Self::Item) -> bool>(&mut self, predicate: P) -> (r: bool)
        requires forall|t: Self::Item| #[trigger] predicate.requires((t,)),
        ensures forall|q: spec_fn(Self::Item) -> bool|
            ((forall|t: Self::Item| #[trigger] predicate.ensures((t,), true) ==> q(t)) && (forall|t: Self::Item| #[trigger] predicate.ensures((t,), false) ==> !q(t)))
            ==> r == #[trigger] sall(old(self).items(), q);
}

} // verus!

// every iterator type of the model gets the same assumed method bodies
macro_rules! assumed_iterator {
    ([$($gen:tt)*] $ty:ty, $item:ty, |$s:ident| $items:expr) => { verus! {
        impl<$($gen)*> Iterator for $ty {
            type Item = $item;
            open spec fn items(&self) -> Seq<$item> { let $s = self; $items }
            #[verifier::external_body]
            fn find<P: Fn(&Self::Item) -> bool>(&mut self, predicate: P) -> (r: Option<Self::Item>) { unimplemented!() }
            #[verifier::external_body]
            fn filter<P: Fn(&Self::Item) -> bool>(self, predicate: P) -> (r: Filter<Self::Item, P>) { unimplemented!() }
            #[verifier::external_body]
            fn map<B, F: Fn(Self::Item) -> B>(self, f: F) -> (r: Map<B, F>) { unimplemented!() }
            #[verifier::external_body]
            fn flat_map<U: IntoIter, F: Fn(Self::Item) -> U>(self, f: F) -> (r: FlatMap<U::Item>) { unimplemented!() }
            #[verifier::external_body]
            fn collect<B: FromIter<Self::Item>>(self) -> (r: B) { unimplemented!() }
            #[verifier::external_body]
            fn chain<U: IntoIter<Item = Self::Item>>(self, other: U) -> (r: Chain<Self::Item>) { unimplemented!() }
            #[verifier::external_body]
            fn any<P: Fn(Self::Item) -> bool>(&mut self, predicate: P) -> (r: bool) { unimplemented!() }
            #[verifier::external_body]
            fn all<P: Fn(Self::Item) -> bool>(&mut self, predicate: P) -> (r: bool) { unimplemented!() }
        }
        impl<$($gen)*> IntoIter for $ty {
            type Item = $item;
            open spec fn into_items(&self) -> Seq<$item> { let $s = self; $items }
        }
    } };
}

verus! {

#[verifier::external_body]
#[verifier::reject_recursive_types(T)]
#[verifier::reject_recursive_types(P)]
pub struct Filter<T, P> { _p: ::core::marker::PhantomData<(T, P)> }
impl<T, P> Filter<T, P> { pub uninterp spec fn fitems(&self) -> Seq<T>; }

#[verifier::external_body]
#[verifier::reject_recursive_types(T)]
#[verifier::reject_recursive_types(F)]
pub struct Map<T, F> { _p: ::core::marker::PhantomData<(T, F)> }
impl<T, F> Map<T, F> { pub uninterp spec fn mitems(&self) -> Seq<T>; }

#[verifier::external_body]
#[verifier::reject_recursive_types(T)]
pub struct FlatMap<T> { _p: ::core::marker::PhantomData<T> }
impl<T> FlatMap<T> { pub uninterp spec fn fmitems(&self) -> Seq<T>; }

#[verifier::external_body]
#[verifier::reject_recursive_types(T)]
pub struct Chain<T> { _p: ::core::marker::PhantomData<T> }
impl<T> Chain<T> { pub uninterp spec fn citems(&self) -> Seq<T>; }

#[verifier::external_body]
#[verifier::reject_recursive_types(T)]
pub struct Empty<T> { _p: ::core::marker::PhantomData<T> }

} // verus!

assumed_iterator!([T] Chain<T>, T, |s| s.citems());
assumed_iterator!([T] Empty<T>, T, |s| Seq::<T>::empty());
assumed_iterator!(['a, T] Iter<'a, T>, &'a T, |s| refs(s.view()));
assumed_iterator!([T, P0] Filter<T, P0>, T, |s| s.fitems());
assumed_iterator!([T, F0] Map<T, F0>, T, |s| s.mitems());
assumed_iterator!([T] FlatMap<T>, T, |s| s.fmitems());

verus! {

impl<'a, T, P> IntoIter for &'a Punctuated<T, P> {
    type Item = &'a T;
    open spec fn into_items(&self) -> Seq<&'a T> { refs(self.pseq()) }
}
// p[i]
impl<T, P> ::vstd::std_specs::core::IndexSpecImpl<usize> for Punctuated<T, P> {
    open spec fn index_req(&self, index: &usize) -> bool { *index < self.pseq().len() }
}
impl<T, P> ::core::ops::Index<usize> for Punctuated<T, P> {
    type Output = T;
    #[verifier::external_body]
    fn index(&self, index: usize) -> (r: &T)
        ensures *r == self.pseq()[index as int],
    { unimplemented!() }
}
impl<T, P> Punctuated<T, P> {
    #[verifier::external_body]
    pub fn iter<'a>(&'a self) -> (r: Iter<'a, T>)
        ensures r@ == self.pseq(), r.items() == refs(self.pseq()),
    { unimplemented!() }
}
impl<T> IntoIter for Vec<T> {
    type Item = T;
    open spec fn into_items(&self) -> Seq<T> { self@ }
}
impl<T> FromIter<T> for Vec<T> {
    open spec fn collected(&self) -> Seq<T> { self@ }
}

// ---------------------------------------------------------------- Option::iter (ASSUMED contract on ::core::option)
#[verifier::external_type_specification]
#[verifier::external_body]
#[verifier::reject_recursive_types(T)]
pub struct ExOptionIter<'a, T: 'a>(::core::option::Iter<'a, T>);

pub uninterp spec fn opt_iter_items<'a, T>(it: ::core::option::Iter<'a, T>) -> Seq<&'a T>;

pub assume_specification<'a, T> [::core::option::Option::<T>::iter] (o: &'a Option<T>) -> (r: ::core::option::Iter<'a, T>)
    ensures opt_iter_items(r) == (match *o { Some(v) => seq![&v], None => Seq::<&T>::empty() });

} // verus!
assumed_iterator!(['a, T] ::core::option::Iter<'a, T>, &'a T, |s| opt_iter_items(*s));
verus! {

// ---------------------------------------------------------------- Peekable (ASSUMED contracts on ::core::iter::Peekable)
#[verifier::external_body]
#[verifier::reject_recursive_types(I)]
pub struct Peekable<I> { _p: ::core::marker::PhantomData<I> }

impl<I: Iterator> Peekable<I> {
    // the elements still to be yielded
    pub uninterp spec fn pitems(&self) -> Seq<I::Item>;

    #[verifier::external_body]
    pub fn peek(&mut self) -> (r: Option<&I::Item>)
        ensures
            final(self).pitems() == old(self).pitems(),
            old(self).pitems().len() == 0 ==> r is None,
            old(self).pitems().len() > 0 ==> r == Some(&old(self).pitems()[0]),
    { unimplemented!() }

    #[verifier::external_body]
    pub fn next(&mut self) -> (r: Option<I::Item>)
        ensures
            old(self).pitems().len() == 0 ==> (r is None && final(self).pitems() == old(self).pitems()),
            old(self).pitems().len() > 0 ==> (r == Some(old(self).pitems()[0]) && final(self).pitems() == old(self).pitems().drop_first()),
    { unimplemented!() }
}

impl<'a, T> Iter<'a, T> {
    #[verifier::external_body]
    pub fn peekable(self) -> (r: Peekable<Iter<'a, T>>)
        ensures r.pitems() == refs(self@),
    { unimplemented!() }
}

// an iterator of token streams under quote's `#(#v)*`
impl<F> RepToTokens for Map<TokenStream, F> {
    open spec fn rep_toks(&self) -> Seq<Seq<Tok>> { toks_of(self.mitems()) }
}

// Vec<TokenStream> under quote's `#(#v)*`
pub open spec fn toks_of(s: Seq<TokenStream>) -> Seq<Seq<Tok>> { s.map_values(|t: TokenStream| t@) }

impl TokenStream {
    // FromIterator<TokenStream> for TokenStream (ASSUMED): concatenation of the streams
    #[verifier::external_body]
    pub fn from_iter<I: IntoIter<Item = TokenStream>>(iter: I) -> (r: TokenStream)
        ensures r@ == flat(toks_of(iter.into_items())),
    { unimplemented!() }
}

impl RepToTokens for Vec<TokenStream> {
    open spec fn rep_toks(&self) -> Seq<Seq<Tok>> { toks_of(self@) }
}

} // verus!

macro_rules! vec {
    () => { Vec::new() };
}

// proved facts about flat / toks_of (not assumptions)
pub mod flat_lemmas {
    use super::*;
    verus! {
    pub broadcast proof fn lemma_toks_of_push(s: Seq<TokenStream>, t: TokenStream)
        ensures #[trigger] toks_of(s.push(t)) == toks_of(s).push(t@),
    { assert(toks_of(s.push(t)) =~= toks_of(s).push(t@)); }

    pub broadcast proof fn lemma_flat_concat(a: Seq<Seq<Tok>>, b: Seq<Seq<Tok>>)
        ensures #[trigger] flat(a + b) == flat(a) + flat(b),
        decreases a.len(),
    {
        if a.len() == 0 {
            assert(a + b =~= b);
            assert(flat(a) + flat(b) =~= flat(b));
        } else {
            assert((a + b).drop_first() =~= a.drop_first() + b);
            lemma_flat_concat(a.drop_first(), b);
            assert(flat(a + b) =~= flat(a) + flat(b));
        }
    }

    pub broadcast proof fn lemma_flat_push(s: Seq<Seq<Tok>>, x: Seq<Tok>)
        ensures #[trigger] flat(s.push(x)) == flat(s) + x,
    {
        assert(s.push(x) =~= s + seq![x]);
        lemma_flat_concat(s, seq![x]);
        assert(seq![x].drop_first() =~= Seq::<Seq<Tok>>::empty());
        assert(flat(Seq::<Seq<Tok>>::empty()) =~= Seq::<Tok>::empty());
        assert(seq![x][0] == x);
        assert(flat(seq![x]) =~= x + flat(seq![x].drop_first()));
        assert(flat(seq![x]) =~= x);
    }

    pub broadcast proof fn lemma_flat_singleton(x: Seq<Tok>)
        ensures #[trigger] flat(seq![x]) == x,
    {
        assert(seq![x].drop_first() =~= Seq::<Seq<Tok>>::empty());
        assert(flat(Seq::<Seq<Tok>>::empty()) =~= Seq::<Tok>::empty());
        assert(seq![x][0] == x);
        assert(flat(seq![x]) =~= x + flat(seq![x].drop_first()));
        assert(flat(seq![x]) =~= x);
    }

    pub broadcast proof fn lemma_flat_empty()
        ensures #[trigger] flat(Seq::<Seq<Tok>>::empty()) == Seq::<Tok>::empty(),
    {}

    pub broadcast proof fn lemma_toks_of_empty()
        ensures #[trigger] toks_of(Seq::<TokenStream>::empty()) == Seq::<Seq<Tok>>::empty(),
    { assert(toks_of(Seq::<TokenStream>::empty()) =~= Seq::<Seq<Tok>>::empty()); }

    pub broadcast proof fn lemma_add_empty_left<A>(a: Seq<A>)
        ensures #[trigger] (Seq::<A>::empty() + a) == a,
    { assert((Seq::<A>::empty() + a) =~= a); }

    pub broadcast proof fn lemma_add_empty_right<A>(a: Seq<A>)
        ensures #[trigger] (a + Seq::<A>::empty()) == a,
    { assert((a + Seq::<A>::empty()) =~= a); }

    pub broadcast proof fn lemma_sflat_singleton<A>(x: Seq<A>)
        ensures #[trigger] sflat(seq![x]) == x,
    {
        assert(seq![x].drop_first() =~= Seq::<Seq<A>>::empty());
        assert(sflat(Seq::<Seq<A>>::empty()) =~= Seq::<A>::empty());
        assert(seq![x][0] == x);
        assert(sflat(seq![x]) =~= x + sflat(seq![x].drop_first()));
        assert(sflat(seq![x]) =~= x);
    }

    pub broadcast proof fn lemma_sflat_empty<A>()
        ensures #[trigger] sflat(Seq::<Seq<A>>::empty()) == Seq::<A>::empty(),
    {}

    pub broadcast proof fn lemma_map_values_singleton<A, B>(x: A, g: spec_fn(A) -> B)
        ensures #[trigger] seq![x].map_values(g) == seq![g(x)],
    { assert(seq![x].map_values(g) =~= seq![g(x)]); }

    pub broadcast proof fn lemma_map_values_empty<A, B>(g: spec_fn(A) -> B)
        ensures #[trigger] Seq::<A>::empty().map_values(g) == Seq::<B>::empty(),
    { assert(Seq::<A>::empty().map_values(g) =~= Seq::<B>::empty()); }

    // pointwise equal views: the token sequences of a list of streams
    pub broadcast proof fn lemma_toks_of_pointwise(s: Seq<TokenStream>, t: Seq<Seq<Tok>>)
        requires s.len() == t.len(), forall|i: int| 0 <= i < s.len() ==> (#[trigger] s[i])@ == t[i],
        ensures #![trigger toks_of(s), flat(t)] toks_of(s) == t,
    { assert(toks_of(s) =~= t); }

    pub broadcast proof fn lemma_toks_of_concat(a: Seq<TokenStream>, b: Seq<TokenStream>)
        ensures #[trigger] toks_of(a + b) == toks_of(a) + toks_of(b),
    { assert(toks_of(a + b) =~= toks_of(a) + toks_of(b)); }

    pub broadcast proof fn lemma_sfilter_satisfies<A>(s: Seq<A>, q: spec_fn(A) -> bool, i: int)
        requires 0 <= i < sfilter(s, q).len(),
        ensures q(#[trigger] sfilter(s, q)[i]),
        decreases s.len(),
    {
        if s.len() > 0 {
            let rest = sfilter(s.drop_first(), q);
            if q(s[0]) {
                assert(sfilter(s, q) == seq![s[0]] + rest);
                if i > 0 {
                    assert(sfilter(s, q)[i] == rest[i - 1]);
                    lemma_sfilter_satisfies(s.drop_first(), q, i - 1);
                }
            } else {
                lemma_sfilter_satisfies(s.drop_first(), q, i);
            }
        }
    }

    pub broadcast proof fn lemma_sfilter_member<A>(s: Seq<A>, q: spec_fn(A) -> bool, i: int)
        requires 0 <= i < sfilter(s, q).len(),
        ensures exists|j: int| 0 <= j < s.len() && s[j] == #[trigger] sfilter(s, q)[i],
        decreases s.len(),
    {
        if s.len() > 0 {
            let rest = sfilter(s.drop_first(), q);
            if q(s[0]) {
                assert(sfilter(s, q) == seq![s[0]] + rest);
                if i > 0 {
                    assert(sfilter(s, q)[i] == rest[i - 1]);
                    lemma_sfilter_member(s.drop_first(), q, i - 1);
                    let j = choose|j: int| 0 <= j < s.drop_first().len() && s.drop_first()[j] == rest[i - 1];
                    assert(s[j + 1] == sfilter(s, q)[i]);
                } else {
                    assert(s[0] == sfilter(s, q)[0]);
                }
            } else {
                lemma_sfilter_member(s.drop_first(), q, i);
                let j = choose|j: int| 0 <= j < s.drop_first().len() && s.drop_first()[j] == rest[i];
                assert(s[j + 1] == sfilter(s, q)[i]);
            }
        }
    }

    pub broadcast group group_seq { lemma_sfilter_satisfies, lemma_sfilter_member, lemma_add_empty_left, lemma_add_empty_right, lemma_sflat_singleton, lemma_sflat_empty, lemma_map_values_singleton, lemma_map_values_empty }

    pub broadcast group group_flat { lemma_toks_of_pointwise, lemma_toks_of_concat, lemma_toks_of_push, lemma_flat_concat, lemma_flat_push, lemma_flat_singleton, lemma_flat_empty, lemma_toks_of_empty }
    }
}

// `std::iter::empty()` as written in the real code resolves here (the model's iterators, not core::iter)
pub mod std {
    pub mod iter {
        use super::super::*;
        verus! {
        #[verifier::external_body]
        pub fn empty<T>() -> (r: Empty<T>) { unimplemented!() }
        }
    }
}

// MODELLING CHOICE: a TokenStream value is its token sequence (specs never observe anything else of it)
pub mod ts_axioms {
    use super::*;
    verus! {
    pub broadcast axiom fn axiom_token_stream_is_its_tokens(a: TokenStream, b: TokenStream)
        ensures (#[trigger] a@ == #[trigger] b@) ==> a == b;
    }
}
// ---- Option adapters: assumed contracts on ::core::option (trusted base) ----
verus! {

pub assume_specification<T, F> [::core::option::Option::<T>::or_else] (o: Option<T>, f: F) -> (r: Option<T>)
    where F: FnOnce() -> Option<T> + ::core::marker::Destruct, T: ::core::marker::Destruct,
    requires o is None ==> f.requires(()),
    ensures
        o is Some ==> r == o,
        o is None ==> f.ensures((), r);

} // verus!

verus! {
pub assume_specification<T, U, F> [::core::option::Option::<T>::map_or] (o: Option<T>, default: U, f: F) -> (r: U)
    where F: FnOnce(T) -> U + ::core::marker::Destruct, T: ::core::marker::Destruct, U: ::core::marker::Destruct,
    requires o is Some ==> f.requires((o->0,)),
    ensures
        o is None ==> r == default,
        o is Some ==> f.ensures((o->0,), r);

pub assume_specification<T, F> [::core::option::Option::<T>::is_some_and] (o: Option<T>, f: F) -> (r: bool)
    where F: FnOnce(T) -> bool + ::core::marker::Destruct, T: ::core::marker::Destruct,
    requires o is Some ==> f.requires((o->0,)),
    ensures
        o is None ==> !r,
        o is Some ==> f.ensures((o->0,), r);
} // verus!
// ---- strings, errors, parsing: assumed contracts (trusted base) ----
pub mod str_axioms {
    use ::vstd::prelude::*;
    verus! {
    // pattern matching on &str uses str equality; String deref uses views.  One axiom relates the two.
    pub broadcast axiom fn axiom_str_eq_is_view_eq(a: &str, b: &str)
        ensures (a == b) == (#[trigger] a@ == #[trigger] b@);
    }
}

verus! {

#[verifier::external_body]
pub struct Error { _p: ::core::marker::PhantomData<()> }

pub type Result<T> = ::core::result::Result<T, Error>;

impl Ident {
    #[verifier::external_body]
    pub fn to_string(&self) -> (r: String)
        ensures r@ == self.name(),
    { unimplemented!() }

    #[verifier::external_body]
    pub fn span(&self) -> (r: Span) { unimplemented!() }
}

// Display of a token stream; a single identifier prints as its name (proc_macro2)
pub uninterp spec fn toks_to_string(t: Seq<Tok>) -> Seq<char>;

impl TokenStream {
    #[verifier::external_body]
    pub fn to_string(&self) -> (r: String)
        ensures
            r@ == toks_to_string(self@),
            forall|n: Seq<char>| self@ == seq![Tok::Id(n)] ==> r@ == n,
    { unimplemented!() }
}

pub assume_specification [<::std::string::String as ::std::convert::AsRef<str>>::as_ref] (s: &::std::string::String) -> (r: &str)
    ensures r@ == s@;

// the result of parsing a token stream is a function of the tokens (whatever syn does, it does it deterministically)
pub uninterp spec fn spec_parse2<T>(t: Seq<Tok>) -> Result<T>;

} // verus!

pub mod syn_parse {
    use super::*;
    verus! {
    #[verifier::external_body]
    pub fn parse2<T>(tokens: TokenStream) -> (r: Result<T>)
        ensures r == spec_parse2::<T>(tokens@),
    { unimplemented!() }
    }
}

verus! {
}

verus! {
impl Error {
    #[verifier::external_body]
    pub fn new(span: Span, message: &str) -> (r: Error) { unimplemented!() }
}
pub trait Spanned {
    fn span(&self) -> Span;
}
impl Spanned for Option<TokenStream> {
    #[verifier::external_body]
    fn span(&self) -> (r: Span) { unimplemented!() }
}
}
verus! {
// real type definitions of o2o-impl, copied byte-exact (derives dropped / replaced as logged)

pub struct TypePath {
    pub span: Span,
    pub path: TokenStream,
    pub path_str: String,
    pub generics: Option<AngleBracketedGenericArguments>,
    pub nameless_tuple: bool,
}
#[derive(Clone, Copy, PartialEq, Eq, Structural)]
pub enum Kind {
    OwnedInto,
    RefInto,
    FromOwned,
    FromRef,
    OwnedIntoExisting,
    RefIntoExisting,
}
type ApplicableTo = [bool; 6];

 struct DataTypeAttrs {
    pub attrs: Vec<TraitAttr>,
    pub ghosts_attrs: Vec<GhostsAttr>,
    pub where_attrs: Vec<WhereAttr>,
    pub child_parents_attrs: Vec<ChildParentsAttr>,

    pub error_instrs: Vec<DataTypeInstruction>,
}
type MemberRepeatFor = [bool; 5];
pub enum MemberAttrType {
    Attr,
    Child,
    Parent,
    Ghost,
    TypeHint,
}

 struct MemberRepeatAttr {
    pub permeate: bool,
    pub repeat_for: MemberRepeatFor,
}

 struct MemberAttrs {
    pub attrs: Vec<MemberAttr>,
    pub child_attrs: Vec<ChildAttr>,
    pub parent_attrs: Vec<ParentAttr>,
    pub ghost_attrs: Vec<GhostAttr>,
    pub ghosts_attrs: Vec<GhostsAttr>,
    pub lit_attrs: Vec<LitAttr>,
    pub pat_attrs: Vec<PatAttr>,
    pub repeat: Option<MemberRepeatAttr>,
    pub skip_repeat: bool,
    pub stop_repeat: bool,
    pub type_hint_attrs: Vec<VariantTypeHintAttr>,

    pub error_instrs: Vec<MemberInstruction>,
}
#[derive(Clone, Copy, PartialEq, Eq, Structural)]
pub enum TypeHint {
    Unit = 0,
    Struct = 1,
    Tuple = 2,
    Unspecified = 3,
}
type TraitRepeatFor = [bool; 4];
pub enum TraitAttrType {
    Vars,
    Update,
    QuickReturn,
    DefaultCase,
}

 struct TraitAttr {
    pub core: TraitAttrCore,
    pub fallible: bool,
    pub applicable_to: ApplicableTo,
}

 struct TraitAttrCore {
    pub ty: TypePath,
    pub err_ty: Option<TypePath>,
    pub type_hint: TypeHint,
    pub init_data: Option<Punctuated<InitData, Token![,]>>,
    pub update: Option<TokenStream>,
    pub quick_return: Option<TokenStream>,
    pub default_case: Option<TokenStream>,
    pub repeat: Option<TraitRepeatFor>,
    pub skip_repeat: bool,
    pub stop_repeat: bool,
    pub attribute: Option<TokenStream>,
    pub impl_attribute: Option<TokenStream>,
    pub inner_attribute: Option<TokenStream>,
}

 struct InitData {
    pub ident: Ident,
    _colon: Token![:],
    pub action: TokenStream,
}

 struct GhostsAttr {
    pub attr: StructGhostAttrCore,
    pub applicable_to: ApplicableTo,
}

 struct StructGhostAttrCore {
    pub container_ty: Option<TypePath>,
    pub ghost_data: Punctuated<GhostData, Token![,]>,
}

 struct GhostData {
    pub child_path: Option<ChildPath>,
    pub ghost_ident: GhostIdent,
    pub action: TokenStream,
}

 enum GhostIdent {
    Member(Member),
    Destruction(TokenStream),
}

 struct ChildPath {
    pub child_path: Punctuated<Member, Token![.]>,
    pub child_path_str: Vec<String>,
}
 struct WhereAttr {
    pub container_ty: Option<TypePath>,
    pub where_clause: Punctuated<WherePredicate, Token![,]>,
}
 struct ChildParentsAttr {
    pub container_ty: Option<TypePath>,
    pub child_parents: Punctuated<ChildParentData, Token![,]>,
}
pub struct ChildParentData {
    pub ty: syn::Path,
    pub type_hint: TypeHint,
    pub field_path: Punctuated<Member, Token![.]>,
    field_path_str: String,
}

 struct MemberAttr {
    pub attr: MemberAttrCore,
    pub fallible: bool,
    pub original_instr: String,
    applicable_to: ApplicableTo,
}

 struct MemberAttrCore {
    pub container_ty: Option<TypePath>,
    pub member: Option<Member>,
    pub action: Option<TokenStream>,
}

 struct ParentAttr {
    pub container_ty: Option<TypePath>,
    pub child_fields: Option<Vec<ParentChildField>>,
}

 struct ParentChildField {
    pub this_member: Member,
    pub attrs: Vec<ParentChildFieldAttr>,
    pub sub_path: Vec<(Member, Option<syn::Path>)>,
    pub sub_path_tokens: TokenStream,
}

 struct ParentChildFieldAttr {
    pub that_member: Option<Member>,
    pub action: Option<TokenStream>,
    pub applicable_to: ApplicableTo,
}

 struct GhostAttr {
    pub attr: FieldGhostAttrCore,
    pub applicable_to: ApplicableTo,
}

 struct FieldGhostAttrCore {
    pub container_ty: Option<TypePath>,
    pub action: Option<TokenStream>,
}
 enum ApplicableAttr<'a> {
    Field(&'a MemberAttrCore),
    Ghost(&'a FieldGhostAttrCore),
    ParentChildField(&'a ParentChildField, Kind),
}

 struct ChildAttr {
    pub container_ty: Option<TypePath>,
    pub child_path: ChildPath,
}

 struct AsAttr {
    pub container_ty: Option<TypePath>,
    pub member: Option<Member>,
    pub tokens: TokenStream,
}

 struct LitAttr {
    pub container_ty: Option<TypePath>,
    pub tokens: TokenStream,
}

 struct PatAttr {
    pub container_ty: Option<TypePath>,
    pub tokens: TokenStream,
}

 struct VariantTypeHintAttr {
    pub container_ty: Option<TypePath>,
    pub type_hint: TypeHint,
}
 enum DataTypeInstruction {
    Map(TraitAttr),
    Ghosts(GhostsAttr),
    Where(WhereAttr),
    ChildParents(ChildParentsAttr),
    AllowUnknown,

    Misplaced { instr: &'static str, span: Span, own: bool },
    Misnamed { instr: &'static str, span: Span, guess_name: &'static str, own: bool },
    UnrecognizedWithError { instr: String, span: Span },
    Unrecognized,
}

 enum MemberInstruction {
    Map(MemberAttr),
    Ghost(GhostAttr),
    Ghosts(GhostsAttr),
    Child(ChildAttr),
    Parent(ParentAttr),
    As(AsAttr),
    Lit(LitAttr),
    Pat(PatAttr),
    VariantTypeHint(VariantTypeHintAttr),
    Repeat(MemberRepeatAttr),
    SkipRepeat,
    StopRepeat,

    Misplaced { instr: &'static str, span: Span, own: bool },
    Misnamed { instr: &'static str, span: Span, guess_name: &'static str, own: bool },
    UnrecognizedWithError { instr: String, span: Span },
    Unrecognized,
}
 struct Struct<'a> {
    pub attrs: DataTypeAttrs,
    pub ident: &'a Ident,
    pub generics: &'a Generics,
    pub fields: Vec<Field>,
    pub named_fields: bool,
    pub unit: bool,
}

 struct Field {
    pub attrs: MemberAttrs,
    pub idx: usize,
    pub member: Member,
    pub member_str: String,
    pub ty: Option<Path>
}
 struct Enum<'a> {
    pub attrs: DataTypeAttrs,
    pub ident: &'a Ident,
    pub generics: &'a Generics,
    pub variants: Vec<Variant>,
}
 struct Variant {
    pub attrs: MemberAttrs,
    pub ident: Ident,
    _idx: usize,
    pub fields: Vec<Field>,
    pub named_fields: bool,
    pub unit: bool,
}
 enum DataType<'a> {
    Struct(&'a Struct<'a>),
    Enum(&'a Enum<'a>),
}

 enum DataTypeMember<'a> {
    Field(&'a Field),
    Variant(&'a Variant),
}
#[derive(Clone, Copy, PartialEq, Eq, Structural)]
enum ImplType {
    Struct,
    Enum,
    Variant,
}
struct ImplContext<'a> {
    input: &'a DataType<'a>,
    impl_type: ImplType,
    struct_attr: &'a TraitAttrCore,
    kind: Kind,
    dst_ty: &'a TokenStream,
    src_ty: &'a TokenStream,
    has_post_init: bool,
    fallible: bool,
}
pub struct ChildRenderContext<'a> {
    pub ty: &'a syn::Path,
    pub type_hint: TypeHint
}
struct QuoteTraitParams<'a> {
    pub attr: Option<&'a TokenStream>,
    pub impl_attr: Option<&'a TokenStream>,
    pub inner_attr: Option<&'a TokenStream>,
    pub dst: &'a TokenStream,
    pub src: &'a TokenStream,
    pub these_gens: TokenStream,
    pub those_gens: TokenStream,
    pub impl_gens: TokenStream,
    pub where_clause: Option<TokenStream>,
    pub r: Option<TokenStream>,
}
struct FieldContainer<'a> {
    gr_idx: Vec<usize>,
    path: String,
    field_data: FieldData<'a>
}
enum FieldData<'a> {
    Field(&'a Field),
    GhostData(&'a GhostData),
    ParentChildField(&'a Field, &'a ParentChildField),
}
enum VariantData<'a> {
    Variant(&'a Variant),
    GhostData(&'a GhostData),
}
// ---- spec vocabulary shared by all units (pure spec; nothing here is assumed) ----

spec fn k_is_from(k: Kind) -> bool { k is FromOwned || k is FromRef }
spec fn k_is_ref(k: Kind) -> bool { k is FromRef || k is RefInto || k is RefIntoExisting }
spec fn k_is_into_existing(k: Kind) -> bool { k is OwnedIntoExisting || k is RefIntoExisting }
spec fn k_is_into(k: Kind) -> bool { k is OwnedInto || k is RefInto }

pub open spec fn kidx(k: Kind) -> int {
    match k {
        Kind::OwnedInto => 0,
        Kind::RefInto => 1,
        Kind::FromOwned => 2,
        Kind::FromRef => 3,
        Kind::OwnedIntoExisting => 4,
        Kind::RefIntoExisting => 5,
    }
}

// applicability bit of an instruction for a conversion kind
pub open spec fn appl(a: [bool; 6], k: Kind) -> bool { a[kidx(k)] }

// counterpart-type equality is equality of the printed path (TypePath::eq)
pub open spec fn ty_eq(a: TypePath, b: TypePath) -> bool { a.path_str@ == b.path_str@ }

spec fn dedicated_to(c: Option<TypePath>, ty: TypePath) -> bool {
    c is Some && ty_eq(c->0, ty)
}

spec fn dt_attrs<'a>(d: DataType<'a>) -> DataTypeAttrs {
    match d { DataType::Struct(s) => s.attrs, DataType::Enum(e) => e.attrs }
}

spec fn dt_generics<'a>(d: DataType<'a>) -> Generics {
    match d { DataType::Struct(s) => *s.generics, DataType::Enum(e) => *e.generics }
}

// ---- what `@` and `~` stand for (C10) ----
spec fn at_toks(k: Kind) -> Toks { if k_is_from(k) { id("value") } else { id("self") } }

spec fn tilde_toks(ctx: ImplContext, postfix: Toks) -> Toks {
    match ctx.impl_type {
        ImplType::Struct => at_toks(ctx.kind) + p(".") + postfix,
        ImplType::Enum => ctx.dst_ty@ + p("::") + postfix,
        ImplType::Variant => postfix,
    }
}

// the recursive token walk itself (replace_tilde_or_at_in_expr): ASSUMED to be this uninterpreted function of
// (expression, what `@` stands for, what `~` stands for)
uninterp spec fn walk(action: Toks, at: Toks, tilde: Toks) -> Toks;

spec fn spec_action(action: Toks, postfix: Toks, ctx: ImplContext) -> Toks {
    walk(action, at_toks(ctx.kind), tilde_toks(ctx, postfix))
}

// ---- abstract views of (Struct, ImplContext): what the unreached block builders may depend on ----
pub ghost struct AView {
    pub attrs: Seq<TraitAttr>,
    pub ghosts_attrs: Seq<GhostsAttr>,
    pub where_attrs: Seq<WhereAttr>,
    pub child_parents_attrs: Seq<ChildParentsAttr>,
}
pub ghost struct SView {
    pub attrs: AView,
    pub ident: Ident,
    pub fields: Seq<Field>,
    pub named_fields: bool,
    pub unit: bool,
}
pub ghost struct CView {
    pub input: Option<SView>,      // None: the input is an enum
    pub impl_type: ImplType,
    pub sa: TraitAttrCore,
    pub kind: Kind,
    pub dst: Toks,
    pub src: Toks,
    pub has_post_init: bool,
    pub fallible: bool,
}
spec fn aview(a: DataTypeAttrs) -> AView {
    AView { attrs: a.attrs@, ghosts_attrs: a.ghosts_attrs@, where_attrs: a.where_attrs@, child_parents_attrs: a.child_parents_attrs@ }
}
spec fn sview<'a>(s: Struct<'a>) -> SView {
    SView { attrs: aview(s.attrs), ident: *s.ident, fields: s.fields@, named_fields: s.named_fields, unit: s.unit }
}
spec fn cview<'a>(c: ImplContext<'a>) -> CView {
    CView {
        input: match *c.input { DataType::Struct(s) => Some(sview(*s)), DataType::Enum(_) => None },
        impl_type: c.impl_type, sa: *c.struct_attr, kind: c.kind, dst: c.dst_ty@, src: c.src_ty@, has_post_init: c.has_post_init, fallible: c.fallible,
    }
}
// ASSUMED (unreached callees), as functions of the views:
uninterp spec fn spec_struct_init(input: SView, ctx: CView) -> Toks;          // struct_init_block

// vars(a: {expr}, ..): one `let name = expr;` per binding, in declaration order (C08)
spec fn let_binding<'a>(ctx: ImplContext<'a>) -> spec_fn(&'a InitData) -> Toks {
    |x: &'a InitData| id("let") + x.ident.toks() + p("=") + spec_action(x.action@, nil(), ctx) + p(";")
}
spec fn spec_pre_init<'a>(ctx: ImplContext<'a>) -> Option<Toks> {
    match ctx.struct_attr.init_data {
        Some(d) => Some(flat(refs(d.pseq()).map_values(let_binding(ctx)))),
        None => None,
    }
}
} // verus!
// ---- #[derive(Clone)] / #[derive(Default)] of the real types: ASSUMED to return an equal value / empty lists ----
// (the derive attributes are dropped at extraction; these stubs stand for what rustc's derive generates)
macro_rules! assumed_derive_clone {
    ($($t:ty),*) => { verus! { $(
        impl Clone for $t {
            #[verifier::external_body]
            fn clone(&self) -> (r: Self)
                ensures r == *self,
            { unimplemented!() }
        }
    )* } };
}
assumed_derive_clone!(TypePath, MemberRepeatAttr, MemberAttrs, TraitAttr, TraitAttrCore, InitData, GhostsAttr, StructGhostAttrCore, GhostData,
    GhostIdent, ChildPath, MemberAttr, MemberAttrCore, ParentAttr, ParentChildField, ParentChildFieldAttr, GhostAttr, FieldGhostAttrCore,
    ChildAttr, AsAttr, LitAttr, PatAttr, VariantTypeHintAttr, MemberInstruction, Field);

verus! {
// #[derive(Default)] for DataTypeAttrs: ASSUMED to produce empty lists
pub closed spec fn dta_all_empty(r: DataTypeAttrs) -> bool {
    r.attrs@ == Seq::<TraitAttr>::empty() && r.ghosts_attrs@ == Seq::<GhostsAttr>::empty() && r.where_attrs@ == Seq::<WhereAttr>::empty()
    && r.child_parents_attrs@ == Seq::<ChildParentsAttr>::empty() && r.error_instrs@ == Seq::<DataTypeInstruction>::empty()
}
impl Default for DataTypeAttrs {
    #[verifier::external_body]
    fn default() -> (r: Self)
        ensures dta_all_empty(r),
    { unimplemented!() }
}
impl Default for Generics {
    #[verifier::external_body]
    fn default() -> (r: Self) { unimplemented!() }
}
}
verus! {
// ---- spec of the lookup layer (C05 C06): "dedicated to the counterpart, else default", first match in list order ----

spec fn ded_then_default<T>(s: Seq<T>, ded: spec_fn(T) -> bool, def: spec_fn(T) -> bool) -> Option<T> {
    if first(s, ded) is Some { first(s, ded) } else { first(s, def) }
}

// container_ty test of a list entry: dedicated to `ty` / default
spec fn ct_ok(c: Option<TypePath>, ty: TypePath, ded: bool) -> bool {
    if ded { dedicated_to(c, ty) } else { c is None }
}

spec fn p_child<'a>(ty: TypePath, ded: bool) -> spec_fn(&'a ChildAttr) -> bool { |x: &ChildAttr| ct_ok(x.container_ty, ty, ded) }
spec fn p_lit<'a>(ty: TypePath, ded: bool) -> spec_fn(&'a LitAttr) -> bool { |x: &LitAttr| ct_ok(x.container_ty, ty, ded) }
spec fn p_pat<'a>(ty: TypePath, ded: bool) -> spec_fn(&'a PatAttr) -> bool { |x: &PatAttr| ct_ok(x.container_ty, ty, ded) }
spec fn p_hint<'a>(ty: TypePath, ded: bool) -> spec_fn(&'a VariantTypeHintAttr) -> bool { |x: &VariantTypeHintAttr| ct_ok(x.container_ty, ty, ded) }
spec fn p_where<'a>(ty: TypePath, ded: bool) -> spec_fn(&'a WhereAttr) -> bool { |x: &WhereAttr| ct_ok(x.container_ty, ty, ded) }
spec fn p_child_parents<'a>(ty: TypePath, ded: bool) -> spec_fn(&'a ChildParentsAttr) -> bool { |x: &ChildParentsAttr| ct_ok(x.container_ty, ty, ded) }
spec fn p_ghost<'a>(ty: TypePath, k: Kind, ded: bool) -> spec_fn(&'a GhostAttr) -> bool {
    |x: &GhostAttr| appl(x.applicable_to, k) && ct_ok(x.attr.container_ty, ty, ded)
}
spec fn p_ghosts<'a>(ty: TypePath, k: Kind, ded: bool) -> spec_fn(&'a GhostsAttr) -> bool {
    |x: &GhostsAttr| appl(x.applicable_to, k) && ct_ok(x.attr.container_ty, ty, ded)
}
spec fn p_pparent<'a>(ty: TypePath, ded: bool) -> spec_fn(&'a ParentAttr) -> bool {
    |x: &ParentAttr| ct_ok(x.container_ty, ty, ded) && x.child_fields is Some
}
// entries of one (kind, fallibility)
spec fn p_kind<'a>(k: Kind, fallible: bool) -> spec_fn(&'a MemberAttr) -> bool {
    |x: &MemberAttr| x.fallible == fallible && appl(x.applicable_to, k)
}
spec fn p_tkind<'a>(k: Kind, fallible: bool) -> spec_fn(&'a TraitAttr) -> bool {
    |x: &TraitAttr| x.fallible == fallible && appl(x.applicable_to, k)
}
spec fn p_mattr<'a>(ty: TypePath, ded: bool) -> spec_fn(&'a MemberAttr) -> bool { |x: &MemberAttr| ct_ok(x.attr.container_ty, ty, ded) }
spec fn p_mcore<'a>(ty: TypePath, ded: bool) -> spec_fn(&'a MemberAttrCore) -> bool { |x: &MemberAttrCore| ct_ok(x.container_ty, ty, ded) }
spec fn core_of<'a>() -> spec_fn(&'a MemberAttr) -> &'a MemberAttrCore { |x: &'a MemberAttr| &x.attr }
spec fn tcore_of<'a>() -> spec_fn(&'a TraitAttr) -> &'a TraitAttrCore { |x: &'a TraitAttr| &x.core }

spec fn spec_child<'a>(a: &'a MemberAttrs, ty: TypePath) -> Option<&'a ChildAttr> {
    ded_then_default(refs(a.child_attrs@), p_child(ty, true), p_child(ty, false))
}
spec fn spec_lit<'a>(a: &'a MemberAttrs, ty: TypePath) -> Option<&'a LitAttr> {
    ded_then_default(refs(a.lit_attrs@), p_lit(ty, true), p_lit(ty, false))
}
spec fn spec_pat<'a>(a: &'a MemberAttrs, ty: TypePath) -> Option<&'a PatAttr> {
    ded_then_default(refs(a.pat_attrs@), p_pat(ty, true), p_pat(ty, false))
}
spec fn spec_type_hint<'a>(a: &'a MemberAttrs, ty: TypePath) -> Option<&'a VariantTypeHintAttr> {
    ded_then_default(refs(a.type_hint_attrs@), p_hint(ty, true), p_hint(ty, false))
}
spec fn spec_ghost<'a>(a: &'a MemberAttrs, ty: TypePath, k: Kind) -> Option<&'a FieldGhostAttrCore> {
    match ded_then_default(refs(a.ghost_attrs@), p_ghost(ty, k, true), p_ghost(ty, k, false)) {
        Some(g) => Some(&g.attr),
        None => None,
    }
}
spec fn spec_pparent<'a>(a: &'a MemberAttrs, ty: TypePath) -> Option<&'a ParentAttr> {
    ded_then_default(refs(a.parent_attrs@), p_pparent(ty, true), p_pparent(ty, false))
}
spec fn q_parent<'a>(ty: TypePath) -> spec_fn(&'a ParentAttr) -> bool {
    |x: &ParentAttr| x.container_ty is None || ty_eq(x.container_ty->0, ty)
}
spec fn q_bare_parent<'a>(ty: TypePath) -> spec_fn(&'a ParentAttr) -> bool {
    |x: &ParentAttr| x.child_fields is None && (x.container_ty is None || ty_eq(x.container_ty->0, ty))
}
spec fn spec_has_parent_attr(a: &MemberAttrs, ty: TypePath) -> bool { first(refs(a.parent_attrs@), q_parent(ty)) is Some }
spec fn spec_has_bare_parent_attr(a: &MemberAttrs, ty: TypePath) -> bool { first(refs(a.parent_attrs@), q_bare_parent(ty)) is Some }
spec fn spec_has_parent(a: &MemberAttrs, ty: TypePath) -> bool {
    exists|i: int| 0 <= i < a.parent_attrs@.len() && (#[trigger] a.parent_attrs@[i].container_ty is None || ty_eq(a.parent_attrs@[i].container_ty->0, ty))
}
spec fn spec_has_bare_parent(a: &MemberAttrs, ty: TypePath) -> bool {
    exists|i: int| 0 <= i < a.parent_attrs@.len() && #[trigger] a.parent_attrs@[i].child_fields is None
        && (a.parent_attrs@[i].container_ty is None || ty_eq(a.parent_attrs@[i].container_ty->0, ty))
}
spec fn spec_ghosts_attr<'a>(a: &'a DataTypeAttrs, ty: TypePath, k: Kind) -> Option<&'a StructGhostAttrCore> {
    match ded_then_default(refs(a.ghosts_attrs@), p_ghosts(ty, k, true), p_ghosts(ty, k, false)) {
        Some(g) => Some(&g.attr),
        None => None,
    }
}
spec fn spec_where<'a>(a: &'a DataTypeAttrs, ty: TypePath) -> Option<&'a WhereAttr> {
    ded_then_default(refs(a.where_attrs@), p_where(ty, true), p_where(ty, false))
}
spec fn spec_child_parents<'a>(a: &'a DataTypeAttrs, ty: TypePath) -> Option<&'a ChildParentsAttr> {
    ded_then_default(refs(a.child_parents_attrs@), p_child_parents(ty, true), p_child_parents(ty, false))
}

// member instructions of exactly (k, fallible): dedicated to ty, else default
spec fn spec_field_attr<'a>(a: &'a MemberAttrs, k: Kind, fallible: bool, ty: TypePath) -> Option<&'a MemberAttr> {
    ded_then_default(sfilter(refs(a.attrs@), p_kind(k, fallible)), p_mattr(ty, true), p_mattr(ty, false))
}
spec fn spec_field_core_v<'a>(attrs: Seq<MemberAttr>, k: Kind, fallible: bool, ty: TypePath) -> Option<&'a MemberAttrCore> {
    ded_then_default(sfilter(refs(attrs), p_kind(k, fallible)).map_values(core_of()), p_mcore(ty, true), p_mcore(ty, false))
}
spec fn spec_field_core<'a>(a: &'a MemberAttrs, k: Kind, fallible: bool, ty: TypePath) -> Option<&'a MemberAttrCore> {
    spec_field_core_v(a.attrs@, k, fallible, ty)
}

spec fn into_of(k: Kind) -> Kind {
    match k { Kind::OwnedIntoExisting => Kind::OwnedInto, Kind::RefIntoExisting => Kind::RefInto, other => other }
}

spec fn or2<T>(a: Option<T>, b: Option<T>) -> Option<T> { if a is Some { a } else { b } }

// C05: exact kind -> (fallible) infallible of that kind -> (into_existing) the corresponding into, exact then infallible
spec fn spec_field_chain_v<'a>(attrs: Seq<MemberAttr>, k: Kind, fallible: bool, ty: TypePath) -> Option<&'a MemberAttrCore> {
    let l1 = spec_field_core_v(attrs, k, fallible, ty);
    let l2 = if fallible { spec_field_core_v(attrs, k, false, ty) } else { None };
    let l3 = if k_is_into_existing(k) { spec_field_core_v(attrs, into_of(k), fallible, ty) } else { None };
    let l4 = if k_is_into_existing(k) && fallible { spec_field_core_v(attrs, into_of(k), false, ty) } else { None };
    or2(l1, or2(l2, or2(l3, l4)))
}
spec fn spec_field_chain<'a>(a: &'a MemberAttrs, k: Kind, fallible: bool, ty: TypePath) -> Option<&'a MemberAttrCore> {
    spec_field_chain_v(a.attrs@, k, fallible, ty)
}

// C05: an applicable #[ghost] beats them all
spec fn spec_applicable<'a>(a: &'a MemberAttrs, k: Kind, fallible: bool, ty: TypePath) -> Option<ApplicableAttr<'a>> {
    match spec_ghost(a, ty, k) {
        Some(g) => Some(ApplicableAttr::Ghost(g)),
        None => match spec_field_chain(a, k, fallible, ty) {
            Some(c) => Some(ApplicableAttr::Field(c)),
            None => None,
        },
    }
}

// validation's view of the chain (no fallible -> infallible step)
spec fn spec_applicable_field<'a>(a: &'a MemberAttrs, k: Kind, fallible: bool, ty: TypePath) -> Option<&'a MemberAttr> {
    or2(spec_field_attr(a, k, fallible, ty), if k_is_into_existing(k) { spec_field_attr(a, into_of(k), fallible, ty) } else { None })
}

// #[parent(..)] child field instructions: first applicable, into_existing falls back to into
spec fn p_pcf<'a>(k: Kind) -> spec_fn(&'a ParentChildFieldAttr) -> bool { |x: &ParentChildFieldAttr| appl(x.applicable_to, k) }
spec fn spec_pcf_for_kind<'a>(p: &'a ParentChildField, k: Kind) -> Option<&'a ParentChildFieldAttr> {
    or2(first(refs(p.attrs@), p_pcf(k)), if k_is_into_existing(k) { first(refs(p.attrs@), p_pcf(into_of(k))) } else { None })
}
// ---- spec vocabulary of the emission layer: field lines (C01 C03 C07 C10) ----

// view of the applicable instruction: counterpart member and inline expression it designates
spec fn aa_member<'a>(a: ApplicableAttr<'a>) -> Option<Member> {
    match a {
        ApplicableAttr::Field(c) => c.member,
        ApplicableAttr::Ghost(_) => None,
        ApplicableAttr::ParentChildField(p, k) => match spec_pcf_for_kind(p, k) { Some(x) => x.that_member, None => None },
    }
}
spec fn aa_action<'a>(a: ApplicableAttr<'a>) -> Option<TokenStream> {
    match a {
        ApplicableAttr::Field(c) => c.action,
        ApplicableAttr::Ghost(g) => g.action,
        ApplicableAttr::ParentChildField(p, k) => match spec_pcf_for_kind(p, k) { Some(x) => x.action, None => None },
    }
}

// payload binding / field name as it is spelled on the source object: inside enum variants tuple fields are bound as f0, f1, ..
spec fn bind_toks(m: Member, variant: bool) -> Toks {
    match m {
        Member::Unnamed(i) => if variant { f_tok(i.index as int) } else { m.toks() },
        Member::Named(_) => m.toks(),
    }
}

// `value.` / `self.` in front of a field; nothing inside a variant (bindings)
spec fn obj_toks<'a>(ctx: ImplContext<'a>) -> Toks {
    if ctx.impl_type is Variant { nil() } else { at_toks(ctx.kind) + p(".") }
}

// #[child(a.b)] prefix of the counterpart's field path
spec fn child_prefix(a: &MemberAttrs, ty: TypePath) -> Toks {
    match spec_child(a, ty) {
        Some(c) => c.child_path.child_path.toks() + p("."),
        None => nil(),
    }
}

// the counterpart member a From-direction instruction designates (for #[parent(..)] child fields: that_member, else the child field itself)
spec fn stuff_member<'a>(a: ApplicableAttr<'a>) -> Option<Member> {
    match a {
        ApplicableAttr::Field(c) => c.member,
        ApplicableAttr::Ghost(_) => None,
        ApplicableAttr::ParentChildField(p, k) => match aa_member(a) { Some(m) => Some(m), None => Some(p.this_member) },
    }
}


spec fn is_member(r: &Member, m: &Member) -> bool { *r == *m }

// what ApplicableAttr::get_stuff returns, in terms of the contracts of the two closures it is given
spec fn get_stuff_inner_post<F1: Fn(&Member) -> TokenStream, F2: Fn() -> &'static Member>(
    member: Option<Member>, action: Option<TokenStream>, obj: Toks, field_path: F1, or: F2, ctx: ImplContext, r: Toks) -> bool
{
    match (member, action) {
        (Some(m), Some(a)) => exists|mm: Member, t: TokenStream| mm.toks() == bind_toks(m, ctx.impl_type is Variant) && #[trigger] field_path.ensures((&mm,), t)
            && r == spec_action(a@, t@, ctx),
        (Some(m), None) => exists|mm: Member, t: TokenStream| mm.toks() == bind_toks(m, ctx.impl_type is Variant) && #[trigger] field_path.ensures((&mm,), t)
            && r =~= obj + t@,
        (None, Some(a)) => exists|o: &Member, t: TokenStream| or.ensures((), o) && #[trigger] field_path.ensures((o,), t) && r == spec_action(a@, t@, ctx),
        (None, None) => exists|o: &Member, t: TokenStream| or.ensures((), o) && #[trigger] field_path.ensures((o,), t) && r =~= obj + t@,
    }
}


// ================================================================== the designated line of one struct field (C01)
// applicable instruction of the field for this conversion (a #[parent(..)] child field carries its own)
spec fn line_attr<'a>(f: &'a Field, ctx: ImplContext<'a>, pc: Option<&'a ParentChildField>) -> Option<ApplicableAttr<'a>> {
    match pc {
        Some(p) => Some(ApplicableAttr::ParentChildField(p, ctx.kind)),
        None => spec_applicable(&f.attrs, ctx.kind, ctx.fallible, ctx.struct_attr.ty),
    }
}
spec fn line_member<'a>(f: &'a Field, pc: Option<&'a ParentChildField>) -> Member {
    match pc { Some(p) => p.this_member, None => f.member }
}

// is the counterpart addressed by field names (true) or by position (false)?  `as {}` / `as ()` decide, else this side's own form
spec fn target_named(member: Member, hint: TypeHint) -> bool {
    hint is Struct || (hint is Unspecified && member is Named)
}

// ---- converting INTO the counterpart: the value this member delivers
// the member itself on the source object (for a #[parent(..)] child field: field sub.path.child)
spec fn own_path<'a>(f: &'a Field, member: Member, ctx: ImplContext<'a>, pc: Option<&'a ParentChildField>) -> Toks {
    match pc {
        Some(pcf) => bind_toks(f.member, ctx.impl_type is Variant) + pcf.sub_path_tokens@ + p(".") + member.toks(),
        None => bind_toks(f.member, ctx.impl_type is Variant),
    }
}
spec fn into_src<'a>(f: &'a Field, member: Member, a: Option<ApplicableAttr<'a>>, ctx: ImplContext<'a>, pc: Option<&'a ParentChildField>) -> Toks {
    let path = own_path(f, member, ctx, pc);
    if a is Some && aa_action(a->0) is Some {
        spec_action(aa_action(a->0)->0@, path, ctx)     // `~` is this member on the source object
    } else {
        obj_toks(ctx) + path
    }
}
// the counterpart's field that receives it: the renamed member when one is given, else the same-named member
spec fn into_dst_name<'a>(f: &'a Field, member: Member, a: Option<ApplicableAttr<'a>>) -> Member {
    if a is Some && aa_member(a->0) is Some { aa_member(a->0)->0 } else { member }
}

spec fn int_tok(n: int) -> Toks { seq![Tok::Int(n)] }

spec fn spec_into_line<'a>(f: &'a Field, ctx: ImplContext<'a>, hint: TypeHint, idx: int, pc: Option<&'a ParentChildField>) -> Toks {
    let member = line_member(f, pc);
    let a = line_attr(f, ctx, pc);
    let src = into_src(f, member, a, ctx, pc);
    // a body that pours a bare #[parent] assigns to `obj` field by field, through the #[child] path like into_existing [C03, C17]
    let pre = child_prefix(&f.attrs, ctx.struct_attr.ty);
    if target_named(member, hint) {
        let dst = into_dst_name(f, member, a).toks();
        if ctx.has_post_init { id("obj") + p(".") + pre + dst + p("=") + src + p(";") } else { dst + p(":") + src + p(",") }
    } else {
        if ctx.has_post_init { id("obj") + p(".") + pre + int_tok(idx) + p("=") + src + p(";") } else { src + p(",") }
    }
}

// ---- into_existing: the same value assigned to the same field of the existing counterpart, through the #[child] path
spec fn spec_existing_line<'a>(f: &'a Field, ctx: ImplContext<'a>, hint: TypeHint, idx: int, pc: Option<&'a ParentChildField>) -> Toks {
    let member = line_member(f, pc);
    let a = line_attr(f, ctx, pc);
    let src = into_src(f, member, a, ctx, pc);
    let dst = if target_named(member, hint) {
        into_dst_name(f, member, a).toks()
    } else if a is Some && aa_member(a->0) is Some {
        aa_member(a->0)->0.toks()        // position given by the instruction
    } else {
        match pc { Some(_) => member.toks(), None => int_tok(f.idx as int) }   // same (declaration) position
    };
    id("other") + p(".") + child_prefix(&f.attrs, ctx.struct_attr.ty) + dst + p("=") + src + p(";")
}

// ---- converting FROM the counterpart: this member receives the designated counterpart field
// a bare #[parent] member is produced from the whole counterpart
spec fn whole_counterpart<'a>(ctx: ImplContext<'a>) -> Toks {
    (if k_is_ref(ctx.kind) { id("value") } else { paren(p("&") + id("value")) })
    + p(".") + (if ctx.fallible { id("try_into") + paren(nil()) + p("?") } else { id("into") + paren(nil()) })
}
// counterpart field read by default: same name, or same position when the counterpart is positional
spec fn from_default_member<'a>(f: &'a Field, ctx: ImplContext<'a>, hint: TypeHint) -> Toks {
    if f.member is Named && !(hint is Tuple) {
        f.member.toks()
    } else if ctx.impl_type is Variant {
        f_tok(f.idx as int)
    } else {
        int_tok(f.idx as int)
    }
}
spec fn from_src<'a>(f: &'a Field, a: Option<ApplicableAttr<'a>>, ctx: ImplContext<'a>, hint: TypeHint, pc: Option<&'a ParentChildField>) -> Toks {
    let pre = child_prefix(&f.attrs, ctx.struct_attr.ty);
    if a is None {
        if spec_has_parent_attr(&f.attrs, ctx.struct_attr.ty) && !(f.member is Named && hint is Tuple) { whole_counterpart(ctx) } else { obj_toks(ctx) + pre + from_default_member(f, ctx, hint) }
    } else if a->0 is Ghost {
        spec_action(aa_action(a->0)->0@, nil(), ctx)
    } else {
        let cf = match stuff_member(a->0) {
            Some(m) => pre + bind_toks(m, ctx.impl_type is Variant),
            None => pre + from_default_member(f, ctx, hint),
        };
        if aa_action(a->0) is Some { spec_action(aa_action(a->0)->0@, cf, ctx) } else { obj_toks(ctx) + cf }
    }
}
spec fn spec_from_line<'a>(f: &'a Field, ctx: ImplContext<'a>, hint: TypeHint, pc: Option<&'a ParentChildField>) -> Toks {
    let member = line_member(f, pc);
    let a = line_attr(f, ctx, pc);
    let src = from_src(f, a, ctx, hint, pc);
    if member is Named { member.toks() + p(":") + src + p(",") } else { src + p(",") }
}

spec fn spec_struct_line<'a>(f: &'a Field, ctx: ImplContext<'a>, hint: TypeHint, idx: int, pc: Option<&'a ParentChildField>) -> Toks {
    if k_is_from(ctx.kind) {
        spec_from_line(f, ctx, hint, pc)
    } else if hint is Unit {
        nil()
    } else if k_is_into_existing(ctx.kind) {
        spec_existing_line(f, ctx, hint, idx, pc)
    } else {
        spec_into_line(f, ctx, hint, idx, pc)
    }
}
// ---- the destructuring pattern of a variant's payload (variant_destruct_block), as a function of the views (C02) ----
// form of the SOURCE variant's payload: converting into the counterpart the source is this variant (own form);
// converting from it the source is the counterpart's variant: #[type_hint] decides, else own form
spec fn destruct_form(named: bool, k: Kind, hint: TypeHint) -> TypeHint {
    if k_is_from(k) {
        if hint is Unit { TypeHint::Unit } else if hint is Struct || (hint is Unspecified && named) { TypeHint::Struct } else { TypeHint::Tuple }
    } else {
        if named { TypeHint::Struct } else { TypeHint::Tuple }
    }
}

// a payload field takes part in the pattern unless it is ghost for a From conversion
spec fn q_bound<'a>(ctx: CView) -> spec_fn(&'a Field) -> bool {
    |f: &Field| !k_is_from(ctx.kind) || spec_ghost(&f.attrs, ctx.sa.ty, ctx.kind) is None
}

// named payloads are bound by (the counterpart's) field name, tuple payloads as f0, f1, ..
spec fn field_binding<'a>(f: &'a Field, form: TypeHint, ctx: CView) -> Toks {
    if form is Struct {
        let a = spec_applicable(&f.attrs, ctx.kind, ctx.fallible, ctx.sa.ty);
        (if k_is_from(ctx.kind) && a is Some {
            match aa_member(a->0) { Some(m) => m, None => f.member }
        } else {
            f.member
        }).toks() + p(",")
    } else {
        f_tok(f.idx as int) + p(",")
    }
}
spec fn b_struct<'a>(ctx: CView) -> spec_fn(&'a Field) -> Toks { |f: &'a Field| field_binding(f, TypeHint::Struct, ctx) }
spec fn b_tuple<'a>(ctx: CView) -> spec_fn(&'a Field) -> Toks { |f: &'a Field| field_binding(f, TypeHint::Tuple, ctx) }

spec fn field_bindings(fields: Seq<Field>, form: TypeHint, ctx: CView) -> Seq<Toks> {
    if form is Struct { sfilter(refs(fields), q_bound(ctx)).map_values(b_struct(ctx)) }
    else if form is Tuple { sfilter(refs(fields), q_bound(ctx)).map_values(b_tuple(ctx)) }
    else { Seq::<Toks>::empty() }
}

// counterpart-only payload fields declared in the variant's #[ghosts] are bound too (so that the pattern is exhaustive)
spec fn ghost_binding<'a>() -> spec_fn(&'a GhostData) -> Toks {
    |g: &'a GhostData| (match g.ghost_ident {
        GhostIdent::Member(Member::Named(i)) => i.toks(),
        GhostIdent::Member(Member::Unnamed(i)) => f_tok(i.index as int),
        GhostIdent::Destruction(d) => d@,
    }) + p(",")
}
spec fn first_ghosts<'a>(s: Seq<GhostsAttr>, ty: TypePath, k: Kind) -> Option<&'a StructGhostAttrCore> {
    match ded_then_default(refs(s), p_ghosts(ty, k, true), p_ghosts(ty, k, false)) { Some(g) => Some(&g.attr), None => None }
}
spec fn ghost_bindings(sv: SView, ctx: CView) -> Seq<Toks> {
    if k_is_from(ctx.kind) {
        match first_ghosts(sv.attrs.ghosts_attrs, ctx.sa.ty, ctx.kind) {
            Some(g) => refs(g.ghost_data.pseq()).map_values(ghost_binding()),
            None => Seq::<Toks>::empty(),
        }
    } else {
        Seq::<Toks>::empty()
    }
}

spec fn spec_variant_destruct(sv: SView, ctx: CView) -> Toks {
    let form = destruct_form(sv.named_fields, ctx.kind, ctx.sa.type_hint);
    let inner = flat(field_bindings(sv.fields, form, ctx)) + flat(ghost_bindings(sv, ctx));
    if form is Struct { brace(inner) } else if form is Tuple { paren(inner) } else { nil() }
}
// the variant seen as a struct: same payload fields, its own #[ghosts], nothing else
spec fn vsview(v: &Variant) -> SView {
    SView {
        attrs: AView { attrs: Seq::empty(), ghosts_attrs: v.attrs.ghosts_attrs@, where_attrs: Seq::empty(), child_parents_attrs: Seq::empty() },
        ident: v.ident, fields: v.fields@, named_fields: v.named_fields, unit: v.unit,
    }
}
// the conversion context inside the arm: bindings instead of value./self., counterpart form from #[type_hint]
spec fn vcview<'a>(v: &Variant, ctx: ImplContext<'a>, hint: TypeHint) -> CView {
    CView { input: Some(vsview(v)), impl_type: ImplType::Variant, sa: TraitAttrCore { type_hint: hint, ..*ctx.struct_attr }, ..cview(ctx) }
}

spec fn variant_hint(v: &Variant, ty: TypePath) -> TypeHint {
    match spec_type_hint(&v.attrs, ty) { Some(h) => h.type_hint, None => TypeHint::Unspecified }
}

spec fn hint_maybe(h: TypeHint, m: TypeHint) -> bool { h == m || h is Unspecified }

// left of `=>` when the variant itself is matched: its payload pattern
spec fn arm_destr(empty_fields: bool, from: bool, hint: TypeHint, destruct: Toks) -> Toks {
    if empty_fields && (!from || hint_maybe(hint, TypeHint::Unit)) {
        nil()
    } else if empty_fields && from && hint is Tuple {
        paren(p(".."))
    } else if empty_fields && from && hint is Struct {
        brace(p(".."))
    } else {
        destruct
    }
}
// payload constructor on the right of `=>`
spec fn arm_init<'a>(a: Option<ApplicableAttr<'a>>, empty_fields: bool, hint: TypeHint, init: Toks) -> Toks {
    if (a is Some && aa_action(a->0) is Some) || (empty_fields && hint_maybe(hint, TypeHint::Unit)) { nil() } else { init }
}

// which arm shapes exist (everything else is a todo!() in the code)
spec fn arm_defined<'a>(a: Option<ApplicableAttr<'a>>, lit: bool, pat: bool, k: Kind) -> bool {
    ||| (a is None && !lit && !pat)
    ||| (a is Some && !lit && !pat && !k_is_into_existing(k))
    ||| (a is None && lit && !pat && !k_is_into_existing(k))
    ||| (a is None && !lit && pat && k_is_from(k))
    ||| (a is Some && !lit && pat && k_is_into(k))
}

spec fn spec_enum_arm<'a>(v: &'a Variant, ctx: ImplContext<'a>, destruct: Toks, init0: Toks) -> Toks {
    let ty = ctx.struct_attr.ty;
    let a = spec_applicable(&v.attrs, ctx.kind, ctx.fallible, ty);
    let lit = spec_lit(&v.attrs, ty);
    let pat = spec_pat(&v.attrs, ty);
    let hint = variant_hint(v, ty);
    let empty = v.fields@.len() == 0;
    let destr = arm_destr(empty, k_is_from(ctx.kind), hint, destruct);
    let init = arm_init(a, empty, hint, init0);
    let src_v = ctx.src_ty@ + p("::") + v.ident.toks();
    let dst_v = ctx.dst_ty@ + p("::") + v.ident.toks();
    if a is None && lit is None && pat is None {
        // same-named variant on both sides
        src_v + destr + p("=>") + dst_v + init + p(",")
    } else if a is Some && lit is None && pat is None && k_is_from(ctx.kind) {
        // the counterpart's (renamed) variant is matched; the result is this variant or the variant-level expression
        let renamed = match aa_member(a->0) { Some(m) => m.toks(), None => match a->0 { ApplicableAttr::ParentChildField(pc, _) => pc.this_member.toks(), _ => v.ident.toks() } };
        ctx.src_ty@ + p("::") + renamed + destr + p("=>")
            + (if aa_action(a->0) is Some { spec_action(aa_action(a->0)->0@, v.ident.toks(), ctx) } else { dst_v + init })
            + p(",")
    } else if a is Some && lit is None && pat is None {
        // this variant is matched; the result is the counterpart's (renamed) variant or the expression
        let right = if a->0 is Ghost {
            spec_action(aa_action(a->0)->0@, nil(), ctx)
        } else {
            let m = match stuff_member(a->0) { Some(m) => m.toks(), None => v.ident.toks() };
            if aa_action(a->0) is Some { spec_action(aa_action(a->0)->0@, m + init, ctx) } else { ctx.dst_ty@ + p("::") + m + init }
        };
        src_v + destr + p("=>") + right + p(",")
    } else if a is None && lit is Some && pat is None && k_is_from(ctx.kind) {
        lit->0.tokens@ + p("=>") + dst_v + init + p(",")          // the value x converts to the variant
    } else if a is None && lit is Some && pat is None {
        src_v + destr + p("=>") + lit->0.tokens@ + p(",")         // the variant converts to the value x
    } else if a is None && lit is None && pat is Some {
        pat->0.tokens@ + p("=>") + dst_v + init + p(",")          // every value matching p converts to the variant
    } else {
        // pattern + Into: the variant converts to its Into expression
        src_v + destr + p("=>") + spec_action(aa_action(a->0)->0@, nil(), ctx) + p(",")
    }
}


// the whole arm of a variant, as render_enum_line emits it
spec fn spec_variant_arm<'a>(v: &'a Variant, ctx: ImplContext<'a>) -> Toks {
    let hint = variant_hint(v, ctx.struct_attr.ty);
    spec_enum_arm(v, ctx, spec_variant_destruct(vsview(v), vcview(v, ctx, hint)), spec_struct_init(vsview(v), vcview(v, ctx, hint)))
}

spec fn enum_line_pre<'a>(v: &'a Variant, ctx: ImplContext<'a>) -> bool {
    let a = spec_applicable(&v.attrs, ctx.kind, ctx.fallible, ctx.struct_attr.ty);
    &&& arm_defined(a, spec_lit(&v.attrs, ctx.struct_attr.ty) is Some, spec_pat(&v.attrs, ctx.struct_attr.ty) is Some, ctx.kind)
    &&& (a is Some && a->0 is Ghost) ==> (aa_action(a->0) is Some && !k_is_from(ctx.kind))
    &&& (a is Some && spec_pat(&v.attrs, ctx.struct_attr.ty) is Some) ==> (aa_action(a->0) is Some && !(a->0 is Ghost))
    &&& !(ctx.impl_type is Variant)
}

// the arm of a counterpart-only variant declared in enum-level #[ghosts(..)]
spec fn spec_enum_ghost_arm<'a>(g: &'a GhostData, ctx: ImplContext<'a>) -> Toks {
    if k_is_from(ctx.kind) {
        ctx.src_ty@ + p("::") + (match g.ghost_ident { GhostIdent::Member(m) => m.toks(), GhostIdent::Destruction(d) => d@ })
        + p("=>") + spec_action(g.action@, nil(), ctx) + p(",")
    } else {
        nil()
    }
}
// ---- spec of the enum match block: arms in order, skipped variants, default case (C02 C06 C09) ----
// a variant is left out of the match: ghost for this conversion when converting from the counterpart; ghost without a
// default value when converting into it
spec fn variant_skipped<'a>(v: &'a Variant, ctx: ImplContext<'a>) -> bool {
    match spec_ghost(&v.attrs, ctx.struct_attr.ty, ctx.kind) {
        Some(g) => k_is_from(ctx.kind) || g.action is None,
        None => false,
    }
}

// arms in declaration order, then the arms of enum-level #[ghosts]
spec fn enum_arms<'a>(items: Seq<&'a VariantData<'a>>, ctx: ImplContext<'a>) -> Seq<Toks>
    decreases items.len(),
{
    if items.len() == 0 {
        Seq::<Toks>::empty()
    } else {
        (match *items[0] {
            VariantData::Variant(v) => if variant_skipped(v, ctx) { Seq::<Toks>::empty() } else { seq![spec_variant_arm(v, ctx)] },
            VariantData::GhostData(g) => seq![spec_enum_ghost_arm(g, ctx)],
        }) + enum_arms(items.drop_first(), ctx)
    }
}

spec fn enum_items_pre<'a>(items: Seq<&'a VariantData<'a>>, ctx: ImplContext<'a>) -> bool {
    forall|i: int| 0 <= i < items.len() ==> (match *#[trigger] items[i] {
        VariantData::Variant(v) => variant_skipped(v, ctx) || enum_line_pre(v, ctx),
        VariantData::GhostData(g) => !(g.ghost_ident matches GhostIdent::Member(Member::Unnamed(_))),
    })
}

spec fn q_has_lit_or_pat<'a>(ty: TypePath) -> spec_fn(&'a Variant) -> bool {
    |v: &Variant| spec_lit(&v.attrs, ty) is Some || spec_pat(&v.attrs, ty) is Some
}
spec fn q_is_ghost<'a>(ty: TypePath, k: Kind) -> spec_fn(&'a Variant) -> bool {
    |v: &Variant| spec_ghost(&v.attrs, ty, k) is Some
}

// the `_ => default` arm is emitted when some source value may be covered by no arm:
//   converting from the counterpart: a variant corresponds to a literal / pattern, or counterpart-only variants are declared;
//   converting into it: a variant of this enum is ghost
spec fn default_case_needed<'a>(input: &Enum<'a>, ctx: ImplContext<'a>) -> bool {
    let ty = ctx.struct_attr.ty;
    if k_is_from(ctx.kind) {
        first(refs(input.variants@), q_has_lit_or_pat(ty)) is Some || spec_ghosts_attr(&input.attrs, ty, ctx.kind) is Some
    } else {
        first(refs(input.variants@), q_is_ghost(ty, ctx.kind)) is Some
    }
}

spec fn default_arm<'a>(input: &Enum<'a>, ctx: ImplContext<'a>) -> Seq<Toks> {
    match ctx.struct_attr.default_case {
        Some(d) => if default_case_needed(input, ctx) { seq![p("_") + spec_action(d@, nil(), ctx)] } else { Seq::<Toks>::empty() },
        None => Seq::<Toks>::empty(),
    }
}


// ---------------------------------------------------------------- enum_init_block: variants in declaration order, then the
// counterpart-only variants of the #[ghosts] that applies to this counterpart and kind (C02 C06)
spec fn mk_variant<'a>() -> spec_fn(&'a Variant) -> VariantData<'a> { |v: &'a Variant| VariantData::Variant(v) }
spec fn mk_ghost<'a>() -> spec_fn(&'a GhostData) -> VariantData<'a> { |d: &'a GhostData| VariantData::GhostData(d) }

spec fn enum_fields<'a>(input: &'a Enum<'a>, ctx: ImplContext<'a>) -> Seq<VariantData<'a>> {
    refs(input.variants@).map_values(mk_variant())
    + (match spec_ghosts_attr(&input.attrs, ctx.struct_attr.ty, ctx.kind) {
        Some(g) => refs(g.ghost_data.pseq()).map_values(mk_ghost()),
        None => Seq::<VariantData>::empty(),
    })
}


// the whole `{ arm, arm, .. [_ default] }` block of an enum conversion
spec fn spec_enum_init<'a>(input: &'a Enum<'a>, ctx: ImplContext<'a>) -> Toks {
    brace(flat(enum_arms(refs(enum_fields(input, ctx)), ctx)) + flat(default_arm(input, ctx)))
}

// =====================================================================================================
// U4 — trait skeletons, body wrappers, quote_action, render_parent
// =====================================================================================================

// ---------------------------------------------------------------- spec of the header parameters
pub ghost struct Q {
    pub attr: Toks,
    pub impl_attr: Toks,
    pub inner_attr: Toks,
    pub dst: Toks,
    pub src: Toks,
    pub these: Toks,
    pub those: Toks,
    pub impl_gens: Toks,
    pub wh: Toks,
    pub r: Toks,
}

spec fn q_of<'a>(p: QuoteTraitParams<'a>) -> Q {
    Q {
        attr: p.attr.toks(),
        impl_attr: p.impl_attr.toks(),
        inner_attr: p.inner_attr.toks(),
        dst: p.dst@,
        src: p.src@,
        these: p.these_gens@,
        those: p.those_gens@,
        impl_gens: p.impl_gens@,
        wh: p.where_clause.toks(),
        r: p.r.toks(),
    }
}

// first where_clause dedicated to `ty`, else first default one (DataTypeAttrs::where_attr, proved in U2)
spec fn first_where(s: Seq<WhereAttr>, ty: TypePath, dedicated: bool) -> Option<WhereAttr>
    decreases s.len(),
{
    if s.len() == 0 {
        None
    } else if (dedicated && dedicated_to(s[0].container_ty, ty)) || (!dedicated && s[0].container_ty is None) {
        Some(s[0])
    } else {
        first_where(s.drop_first(), ty, dedicated)
    }
}

spec fn spec_where_attr(s: Seq<WhereAttr>, ty: TypePath) -> Option<WhereAttr> {
    if first_where(s, ty, true) is Some { first_where(s, ty, true) } else { first_where(s, ty, false) }
}

// computed by get_quote_trait_params (ASSUMED, see stub below): the impl's generic parameter list and whether a fresh
// 'o2o lifetime is needed
uninterp spec fn spec_impl_gens<'a>(input: DataType<'a>, ctx: ImplContext<'a>) -> Toks;
uninterp spec fn spec_has_ref_lts<'a>(input: DataType<'a>, ctx: ImplContext<'a>) -> bool;
// the deriving type's generic parameters in ARGUMENT form (`<'a, T, N>`): what the property demands after the type
uninterp spec fn arg_form(g: Generics) -> Toks;

spec fn qparams<'a>(input: DataType<'a>, ctx: ImplContext<'a>) -> Q {
    Q {
        attr: ctx.struct_attr.attribute.toks(),
        impl_attr: ctx.struct_attr.impl_attribute.toks(),
        inner_attr: ctx.struct_attr.inner_attribute.toks(),
        dst: ctx.dst_ty@,
        src: ctx.src_ty@,
        these: arg_form(dt_generics(input)),   // split_for_impl().1
        those: ctx.struct_attr.ty.generics.toks(),
        impl_gens: spec_impl_gens(input, ctx),
        wh: match spec_where_attr(dt_attrs(input).where_attrs@, ctx.struct_attr.ty) {
            Some(w) => id("where") + w.where_clause.toks(),
            None => nil(),
        },
        r: if k_is_ref(ctx.kind) {
            if spec_has_ref_lts(input, ctx) { p("&") + lt("'o2o") } else { p("&") }
        } else {
            nil()
        },
    }
}

#[verifier::external_body]
fn get_quote_trait_params<'a>(input: &DataType, ctx: &'a ImplContext) -> (r: QuoteTraitParams<'a>)
    ensures q_of(r) == qparams(*input, *ctx),
{ unimplemented!() }

// ---------------------------------------------------------------- documented shapes (C04 C11 C17 C20)
spec fn core_convert(tr: &str) -> Toks {
    p("::") + id("core") + p("::") + id("convert") + p("::") + id(tr)
}
spec fn o2o_traits(tr: &str) -> Toks {
    id("o2o") + p("::") + id("traits") + p("::") + id(tr)
}
spec fn core_result(ok: Toks, err: Toks) -> Toks {
    p("::") + id("core") + p("::") + id("result") + p("::") + id("Result") + p("<") + ok + p(",") + err + p(">")
}
// impl<G> Trait<[&['o2o]] Src<Those>> for Dst<These> [where ..]      (From / TryFrom: the deriving type is the target)
spec fn from_header(q: Q, trait_path: Toks) -> Toks {
    q.impl_attr + id("impl") + q.impl_gens + trait_path + p("<") + q.r + q.src + q.those + p(">") + id("for") + q.dst + q.these + q.wh
}
// impl<G> Trait<Dst<Those>> for [&['o2o]] Src<These> [where ..]      (Into family: the deriving type is the source)
spec fn into_header(q: Q, trait_path: Toks) -> Toks {
    q.impl_attr + id("impl") + q.impl_gens + trait_path + p("<") + q.dst + q.those + p(">") + id("for") + q.r + q.src + q.these + q.wh
}
spec fn type_error(err: Toks) -> Toks { id("type") + id("Error") + p("=") + err + p(";") }

spec fn spec_from_impl(q: Q, pre_init: Toks, init: Toks) -> Toks {
    from_header(q, core_convert("From")) + brace(
        q.attr + id("fn") + id("from") + paren(id("value") + p(":") + q.r + q.src + q.those) + p("->") + q.dst + q.these
        + brace(q.inner_attr + pre_init + init))
}
spec fn spec_try_from_impl(q: Q, err: Toks, pre_init: Toks, init: Toks) -> Toks {
    from_header(q, core_convert("TryFrom")) + brace(
        type_error(err)
        + q.attr + id("fn") + id("try_from") + paren(id("value") + p(":") + q.r + q.src + q.those) + p("->") + core_result(q.dst + q.these, err)
        + brace(q.inner_attr + pre_init + init))
}
spec fn into_body(q: Q, pre_init: Toks, init: Toks, post_init: Option<Toks>, ok: bool) -> Toks {
    match post_init {
        // vars(..) are bound first, whatever the form of the body [C08]
        Some(post) => pre_init + id("let") + id("mut") + id("obj") + p(":") + q.dst + p("=") + id("Default") + p("::") + id("default") + paren(nil()) + p(";")
            + init + post + (if ok { id("Ok") + paren(id("obj")) } else { id("obj") }),
        None => pre_init + init,
    }
}
spec fn spec_into_impl(q: Q, pre_init: Toks, init: Toks, post_init: Option<Toks>) -> Toks {
    into_header(q, core_convert("Into")) + brace(
        q.attr + id("fn") + id("into") + paren(id("self")) + p("->") + q.dst + q.those
        + brace(q.inner_attr + into_body(q, pre_init, init, post_init, false)))
}
spec fn spec_try_into_impl(q: Q, err: Toks, pre_init: Toks, init: Toks, post_init: Option<Toks>) -> Toks {
    into_header(q, core_convert("TryInto")) + brace(
        type_error(err)
        + q.attr + id("fn") + id("try_into") + paren(id("self")) + p("->") + core_result(q.dst + q.those, err)
        + brace(q.inner_attr + into_body(q, pre_init, init, post_init, true)))
}
spec fn opt_toks(o: Option<Toks>) -> Toks { match o { Some(t) => t, None => nil() } }
spec fn spec_into_existing_impl(q: Q, pre_init: Toks, init: Toks, post_init: Option<Toks>) -> Toks {
    into_header(q, o2o_traits("IntoExisting")) + brace(
        q.attr + id("fn") + id("into_existing") + paren(id("self") + p(",") + id("other") + p(":") + p("&") + id("mut") + q.dst + q.those)
        + brace(q.inner_attr + pre_init + init + opt_toks(post_init)))
}
spec fn spec_try_into_existing_impl(q: Q, err: Toks, pre_init: Toks, init: Toks, post_init: Option<Toks>) -> Toks {
    into_header(q, o2o_traits("TryIntoExisting")) + brace(
        type_error(err)
        + q.attr + id("fn") + id("try_into_existing") + paren(id("self") + p(",") + id("other") + p(":") + p("&") + id("mut") + q.dst + q.those)
        + p("->") + core_result(paren(nil()), err)
        + brace(q.inner_attr + pre_init + init + opt_toks(post_init) + id("Ok") + paren(paren(nil()))))
}

spec fn otoks(o: Option<TokenStream>) -> Option<Toks> { match o { Some(t) => Some(t@), None => None } }

// the declared error type: the full path WITH its generic arguments (C04 statement: "type Error equal to the declared error type")
spec fn declared_err(t: TypePath) -> Toks { t.path@ + t.generics.toks() }

impl Kind {
 fn is_ref(self) -> (r: bool)
    ensures r == k_is_ref(self), // #is_ref
{

        self == Kind::FromRef || self == Kind::RefInto || self == Kind::RefIntoExisting
    
}
}
impl Kind {
 fn is_from(self) -> (r: bool)
    ensures r == k_is_from(self), // #is_from
{

        self == Kind::FromOwned || self == Kind::FromRef
    
}
}
impl Kind {
 fn is_into_existing(self) -> (r: bool)
    ensures r == k_is_into_existing(self), // #is_into_existing
{

        self == Kind::OwnedIntoExisting || self == Kind::RefIntoExisting
    
}
}
impl ImplType {
fn is_variant(self) -> (r: bool)
    ensures r == (self is Variant), // #is_variant
{

        self == ImplType::Variant
    
}
}

fn quote_from_trait(input: &DataType, ctx: &ImplContext, pre_init: Option<TokenStream>, init: TokenStream) -> (r: TokenStream)
    ensures
        r@ =~= spec_from_impl(qparams(*input, *ctx), pre_init.toks(), init@), // #impl-From
{

    let QuoteTraitParams { attr, impl_attr, inner_attr, dst, src, these_gens, those_gens, impl_gens, where_clause, r } = get_quote_trait_params(input, ctx);
    quote! {
        #impl_attr
        impl #impl_gens ::core::convert::From<#r #src #those_gens> for #dst #these_gens #where_clause {
            #attr
            fn from(value: #r #src #those_gens) -> #dst #these_gens {
                #inner_attr
                #pre_init
                #init
            }
        }
    }

}

fn quote_try_from_trait(input: &DataType, ctx: &ImplContext, pre_init: Option<TokenStream>, init: TokenStream) -> (r: TokenStream)
    requires
        ctx.struct_attr.err_ty is Some, // #err_ty-present [C16]
    ensures
        r@ =~= spec_try_from_impl(qparams(*input, *ctx), declared_err(ctx.struct_attr.err_ty->0), pre_init.toks(), init@), // #impl-TryFrom
{

    let QuoteTraitParams { attr, impl_attr, inner_attr, dst, src, these_gens, those_gens, impl_gens, where_clause, r } = get_quote_trait_params(input, ctx);
    let err_ty = ctx.struct_attr.err_ty.as_ref().unwrap();
    let (err_path, err_gens) = (&err_ty.path, &err_ty.generics);
    let err_ty = quote!(#err_path #err_gens);
    quote! {
        #impl_attr
        impl #impl_gens ::core::convert::TryFrom<#r #src #those_gens> for #dst #these_gens #where_clause {
            type Error = #err_ty;
            #attr
            fn try_from(value: #r #src #those_gens) -> ::core::result::Result<#dst #these_gens, #err_ty> {
                #inner_attr
                #pre_init
                #init
            }
        }
    }

}

fn quote_into_trait(input: &DataType, ctx: &ImplContext, pre_init: Option<TokenStream>, init: TokenStream, post_init: Option<TokenStream>) -> (r: TokenStream)
    ensures
        r@ =~= spec_into_impl(qparams(*input, *ctx), pre_init.toks(), init@, otoks(post_init)), // #impl-Into
{

    let QuoteTraitParams { attr, impl_attr, inner_attr, dst, src, these_gens, those_gens, impl_gens, where_clause, r } = get_quote_trait_params(input, ctx);

    let body = match post_init {
        Some(post_init) => quote! {
            #pre_init
            let mut obj: #dst = Default::default();
            #init
            #post_init
            obj
        },
        None => quote! {
            #pre_init
            #init
        },
    };

    quote! {
        #impl_attr
        impl #impl_gens ::core::convert::Into<#dst #those_gens> for #r #src #these_gens #where_clause {
            #attr
            fn into(self) -> #dst #those_gens {
                #inner_attr
                #body
            }
        }
    }

}

fn quote_try_into_trait(input: &DataType, ctx: &ImplContext, pre_init: Option<TokenStream>, init: TokenStream, post_init: Option<TokenStream>) -> (r: TokenStream)
    requires
        ctx.struct_attr.err_ty is Some, // #err_ty-present [C16]
    ensures
        r@ =~= spec_try_into_impl(qparams(*input, *ctx), declared_err(ctx.struct_attr.err_ty->0), pre_init.toks(), init@, otoks(post_init)), // #impl-TryInto
{

    let QuoteTraitParams { attr, impl_attr, inner_attr, dst, src, these_gens, those_gens, impl_gens, where_clause, r } = get_quote_trait_params(input, ctx);
    let err_ty = ctx.struct_attr.err_ty.as_ref().unwrap();
    let (err_path, err_gens) = (&err_ty.path, &err_ty.generics);
    let err_ty = quote!(#err_path #err_gens);

    let body = match post_init {
        Some(post_init) => quote! {
            #pre_init
            let mut obj: #dst = Default::default();
            #init
            #post_init
            Ok(obj)
        },
        None => quote! {
            #pre_init
            #init
        },
    };

    quote! {
        #impl_attr
        impl #impl_gens ::core::convert::TryInto<#dst #those_gens> for #r #src #these_gens #where_clause {
            type Error = #err_ty;
            #attr
            fn try_into(self) -> ::core::result::Result<#dst #those_gens, #err_ty> {
                #inner_attr
                #body
            }
        }
    }

}

fn quote_into_existing_trait(input: &DataType, ctx: &ImplContext, pre_init: Option<TokenStream>, init: TokenStream, post_init: Option<TokenStream>) -> (r: TokenStream)
    ensures
        r@ =~= spec_into_existing_impl(qparams(*input, *ctx), pre_init.toks(), init@, otoks(post_init)), // #impl-IntoExisting
{

    let QuoteTraitParams { attr, impl_attr, inner_attr, dst, src, these_gens, those_gens, impl_gens, where_clause, r } = get_quote_trait_params(input, ctx);
    quote! {
        #impl_attr
        impl #impl_gens o2o::traits::IntoExisting<#dst #those_gens> for #r #src #these_gens #where_clause {
            #attr
            fn into_existing(self, other: &mut #dst #those_gens) {
                #inner_attr
                #pre_init
                #init
                #post_init
            }
        }
    }

}

fn quote_try_into_existing_trait(input: &DataType, ctx: &ImplContext, pre_init: Option<TokenStream>, init: TokenStream, post_init: Option<TokenStream>) -> (r: TokenStream)
    requires
        ctx.struct_attr.err_ty is Some, // #err_ty-present [C16]
    ensures
        r@ =~= spec_try_into_existing_impl(qparams(*input, *ctx), declared_err(ctx.struct_attr.err_ty->0), pre_init.toks(), init@, otoks(post_init)), // #impl-TryIntoExisting
{

    let QuoteTraitParams { attr, impl_attr, inner_attr, dst, src, these_gens, those_gens, impl_gens, where_clause, r } = get_quote_trait_params(input, ctx);
    let err_ty = ctx.struct_attr.err_ty.as_ref().unwrap();
    let (err_path, err_gens) = (&err_ty.path, &err_ty.generics);
    let err_ty = quote!(#err_path #err_gens);
    quote! {
        #impl_attr
        impl #impl_gens o2o::traits::TryIntoExisting<#dst #those_gens> for #r #src #these_gens #where_clause {
            type Error = #err_ty;
            #attr
            fn try_into_existing(self, other: &mut #dst #those_gens) -> ::core::result::Result<(), #err_ty> {
                #inner_attr
                #pre_init
                #init
                #post_init
                Ok(())
            }
        }
    }

}


// ---------------------------------------------------------------- @ / ~ substitution entry point (C10)
#[verifier::external_body]
fn replace_tilde_or_at_in_expr(input: &TokenStream, at_tokens: Option<&TokenStream>, tilde_tokens: Option<&TokenStream>) -> (r: TokenStream)
    ensures r@ == walk(input@, at_tokens.toks(), tilde_tokens.toks()),
{ unimplemented!() }

fn quote_action(action: &TokenStream, tilde_postfix: Option<&TokenStream>, ctx: &ImplContext) -> (r: TokenStream)
    ensures
        r@ == spec_action(action@, tilde_postfix.toks(), *ctx), // #at-and-tilde-meaning
{

    let dst = ctx.dst_ty;
    let ident = match ctx.kind {
        Kind::FromOwned | Kind::FromRef => quote!(value),
        _ => quote!(self),
    };
    let path = match ctx.impl_type {
        ImplType::Struct => quote!(#ident.#tilde_postfix),
        ImplType::Enum => quote!(#dst::#tilde_postfix),
        ImplType::Variant => quote!(#tilde_postfix),
    };
    replace_tilde_or_at_in_expr(action, Some(&ident), Some(&path))

}

// ---------------------------------------------------------------- bare #[parent] poured into the counterpart (C03 C07)
spec fn self_member(m: Toks, by_ref: bool) -> Toks {
    if by_ref { paren(p("&") + paren(id("self") + p(".") + m)) } else { id("self") + p(".") + m }
}
spec fn spec_render_parent(m: Toks, k: Kind, fallible: bool) -> Toks {
    self_member(m, k_is_ref(k)) + p(".") + (if fallible { id("try_into_existing") } else { id("into_existing") })
    + paren(if k_is_into_existing(k) { id("other") } else { p("&") + id("mut") + id("obj") })
    + (if fallible { p("?") } else { nil() }) + p(";")
}

fn render_parent(f: &Field, ctx: &ImplContext) -> (r: TokenStream)
    requires
        !k_is_from(ctx.kind), // #not-from [C16]
    ensures
        r@ =~= spec_render_parent(f.member.toks(), ctx.kind, ctx.fallible), // #parent-pouring
{

    let member = &f.member;
    match (&ctx.kind, ctx.fallible) {
        (Kind::OwnedIntoExisting, false) => quote!(self.#member.into_existing(other);),
        (Kind::RefIntoExisting, false) => quote!((&(self.#member)).into_existing(other);),
        (Kind::OwnedInto, false) => quote!(self.#member.into_existing(&mut obj);),
        (Kind::RefInto, false) => quote!((&(self.#member)).into_existing(&mut obj);),
        (Kind::OwnedIntoExisting, true) => quote!(self.#member.try_into_existing(other)?;),
        (Kind::RefIntoExisting, true) => quote!((&(self.#member)).try_into_existing(other)?;),
        (Kind::OwnedInto, true) => quote!(self.#member.try_into_existing(&mut obj)?;),
        (Kind::RefInto, true) => quote!((&(self.#member)).try_into_existing(&mut obj)?;),
        _ => unreachable!("5"),
    }

}

// ---------------------------------------------------------------- body wrappers (C07 C08 C17)
// ASSUMED (unreached callee): the struct init block (the enum block is proved in U9)

#[verifier::external_body]
fn struct_init_block<'a>(input: &'a Struct, ctx: &ImplContext) -> (r: TokenStream)
    ensures r@ == spec_struct_init(sview(*input), cview(*ctx)),
{ unimplemented!() }

#[verifier::external_body]
fn enum_init_block(input: &Enum, ctx: &ImplContext) -> (r: TokenStream)
    requires
        enum_items_pre(refs(enum_fields(input, *ctx)), *ctx),
    ensures
        r@ =~= brace(flat(enum_arms(refs(enum_fields(input, *ctx)), *ctx)) + flat(default_arm(input, *ctx))),
{ unimplemented!() }

spec fn spec_struct_main<'a>(input: Struct<'a>, ctx: ImplContext<'a>) -> Toks {
    let init = spec_struct_init(sview(input), cview(ctx));
    if k_is_from(ctx.kind) {
        ctx.dst_ty@ + init
    } else if k_is_into(ctx.kind) {
        // the type name is omitted exactly for bare tuples and in the post-init dialect
        (if ctx.struct_attr.ty.nameless_tuple || ctx.has_post_init { nil() } else { ctx.dst_ty@ }) + init
    } else {
        init
    }
}

spec fn spec_enum_main<'a>(input: &'a Enum<'a>, ctx: ImplContext<'a>) -> Toks {
    let init = spec_enum_init(input, ctx);
    if k_is_from(ctx.kind) {
        id("match") + id("value") + init
    } else if k_is_into(ctx.kind) {
        id("match") + id("self") + init
    } else {
        init
    }
}

fn struct_main_code_block(input: &Struct, ctx: &ImplContext) -> (r: TokenStream)
    ensures
        r@ =~= spec_struct_main(*input, *ctx), // #struct-body-shape
{

    let struct_init_block = struct_init_block(input, ctx);

    match ctx.kind {
        Kind::FromOwned | Kind::FromRef => {
            let dst = ctx.dst_ty;
            quote!(#dst #struct_init_block)
        },
        Kind::OwnedInto | Kind::RefInto => {
            let dst = if ctx.struct_attr.ty.nameless_tuple || ctx.has_post_init {
                TokenStream::new()
            } else {
                ctx.dst_ty.clone()
            };
            quote!(#dst #struct_init_block)
        },
        Kind::OwnedIntoExisting | Kind::RefIntoExisting => struct_init_block,
    }

}

fn enum_main_code_block(input: &Enum, ctx: &ImplContext) -> (r: TokenStream)
    requires
        enum_items_pre(refs(enum_fields(input, *ctx)), *ctx), // #every-rendered-variant-has-a-defined-arm [C16]
    ensures
        r@ =~= spec_enum_main(input, *ctx), // #enum-body-shape
{

    let enum_init_block = enum_init_block(input, ctx);

    match ctx.kind {
        Kind::FromOwned | Kind::FromRef => {
            quote!(match value #enum_init_block)
        },
        Kind::OwnedInto | Kind::RefInto => {
            quote!(match self #enum_init_block)
        },
        Kind::OwnedIntoExisting | Kind::RefIntoExisting => enum_init_block,
    }

}

spec fn spec_data_body<'a>(ctx: ImplContext<'a>) -> Toks {
    match *ctx.input {
        DataType::Struct(s) => spec_struct_main(*s, ctx),
        DataType::Enum(e) => spec_enum_main(e, ctx),
    }
}

// what the body builders need from validation (C16 ledger): for an enum without quick return, every rendered variant has a
// defined arm shape and carries what that shape needs.  (Independent of the post-init dialect: stated on the context with
// has_post_init = false.)
spec fn body_pre0<'a>(ctx: ImplContext<'a>) -> bool {
    ctx.struct_attr.quick_return is None ==> (match *ctx.input {
        DataType::Enum(e) => enum_items_pre(refs(enum_fields(e, ctx)), ctx),
        DataType::Struct(_) => true,
    })
}
spec fn body_pre<'a>(ctx: ImplContext<'a>) -> bool { body_pre0(ImplContext { has_post_init: false, ..ctx }) }

// `return expr` replaces the whole generated body; for into_existing it is assigned to the existing value (C08)
spec fn spec_quick_return<'a>(qr: Toks, ctx: ImplContext<'a>) -> Toks {
    if k_is_into_existing(ctx.kind) {
        p("*") + id("other") + p("=") + spec_action(qr, nil(), ctx) + p(";")
    } else {
        spec_action(qr, nil(), ctx)
    }
}

spec fn spec_main<'a>(ctx: ImplContext<'a>) -> Toks {
    match ctx.struct_attr.quick_return {
        Some(qr) => spec_quick_return(qr@, ctx),
        None => spec_data_body(ctx),
    }
}

// fallible From/Into: Ok(..) around what the infallible flavour returns, except in the post-init dialect where the
// skeleton ends with Ok(obj) (C07)
spec fn spec_main_ok<'a>(ctx: ImplContext<'a>) -> Toks {
    match ctx.struct_attr.quick_return {
        Some(qr) => spec_quick_return(qr@, ctx),
        None => if ctx.has_post_init { spec_data_body(ctx) } else { id("Ok") + paren(spec_data_body(ctx)) },
    }
}

fn main_code_block(ctx: &ImplContext) -> (r: TokenStream)
    requires
        body_pre(*ctx), // #body-preconditions [C16]
    ensures
        r@ =~= spec_main(*ctx), // #body-or-quick-return
{

    if let Some(quick_return) = &ctx.struct_attr.quick_return {
        //TODO: Consider removing quick returns for into_existing because they are confusing
        if ctx.kind.is_into_existing() {
            let action = quote_action(quick_return, None, ctx);
            return quote!(*other = #action;);
        }
        return quote_action(quick_return, None, ctx);
    }

    match ctx.input {
        DataType::Struct(s) => struct_main_code_block(s, ctx),
        DataType::Enum(e) => enum_main_code_block(e, ctx),
    }

}

fn main_code_block_ok(ctx: &ImplContext) -> (r: TokenStream)
    requires
        body_pre(*ctx), // #body-preconditions [C16]
    ensures
        r@ =~= spec_main_ok(*ctx), // #ok-wrapping
{

    if let Some(quick_return) = &ctx.struct_attr.quick_return {
        //TODO: Consider removing quick returns for into_existing because they are confusing
        if ctx.kind.is_into_existing() {
            let action = quote_action(quick_return, None, ctx);
            return quote!(*other = #action;);
        }
        return quote_action(quick_return, None, ctx);
    }

    let inner = match ctx.input {
        DataType::Struct(s) => struct_main_code_block(s, ctx),
        DataType::Enum(e) => enum_main_code_block(e, ctx),
    };

    if ctx.has_post_init {
        inner
    } else {
        quote!(Ok(#inner))
    }

}


// ---------------------------------------------------------------- dispatch: (kind, fallible) -> skeleton (C04 C07)
// ASSUMED (unreached callee): bare-#[parent] pouring statements
uninterp spec fn spec_post_init<'a>(input: DataType<'a>, ctx: ImplContext<'a>) -> Option<Toks>;

#[verifier::external_body]
fn struct_pre_init(ctx: &ImplContext) -> (r: Option<TokenStream>)
    ensures otoks(r) == spec_pre_init(*ctx),
{ unimplemented!() }

#[verifier::external_body]
fn struct_post_init(input: &DataType, ctx: &ImplContext) -> (r: Option<TokenStream>)
    ensures otoks(r) == spec_post_init(*input, *ctx),
{ unimplemented!() }

spec fn with_post_init<'a>(ctx: ImplContext<'a>, b: bool) -> ImplContext<'a> {
    ImplContext { has_post_init: b, ..ctx }
}

spec fn the_post_init<'a>(input: DataType<'a>, ctx: ImplContext<'a>) -> Option<Toks> {
    // `return expr` replaces the whole body: no parent is poured after it [C08]
    if k_is_from(ctx.kind) || ctx.struct_attr.quick_return is Some { None } else { spec_post_init(input, ctx) }
}

// the one impl generated for (input, ctx): trait chosen by (kind, fallible); Ok-wrapping body iff TryFrom / TryInto
spec fn spec_impl<'a>(input: DataType<'a>, ctx0: ImplContext<'a>) -> Toks {
    let post = the_post_init(input, ctx0);
    let ctx = with_post_init(ctx0, post is Some);
    let q = qparams(input, ctx);
    let pre = opt_toks(spec_pre_init(ctx0));
    let err = declared_err(ctx.struct_attr.err_ty->0);
    match (ctx.kind, ctx.fallible) {
        (Kind::FromOwned, false) | (Kind::FromRef, false) => spec_from_impl(q, pre, spec_main(ctx)),
        (Kind::FromOwned, true) | (Kind::FromRef, true) => spec_try_from_impl(q, err, pre, spec_main_ok(ctx)),
        (Kind::OwnedInto, false) | (Kind::RefInto, false) => spec_into_impl(q, pre, spec_main(ctx), post),
        (Kind::OwnedInto, true) | (Kind::RefInto, true) => spec_try_into_impl(q, err, pre, spec_main_ok(ctx), post),
        (Kind::OwnedIntoExisting, false) | (Kind::RefIntoExisting, false) => spec_into_existing_impl(q, pre, spec_main(ctx), post),
        (Kind::OwnedIntoExisting, true) | (Kind::RefIntoExisting, true) => spec_try_into_existing_impl(q, err, pre, spec_main(ctx), post),
    }
}

fn quote_trait(input: &DataType, ctx: &mut ImplContext) -> (r: TokenStream)
    requires
        old(ctx).fallible ==> old(ctx).struct_attr.err_ty is Some, // #fallible-has-err_ty [C16]
        body_pre(*old(ctx)), // #body-preconditions [C16]
    ensures
        r@ =~= spec_impl(*input, *old(ctx)), // #kind-to-trait
        *final(ctx) == with_post_init(*old(ctx), the_post_init(*input, *old(ctx)) is Some), // #ctx-frame
{

    let pre_init = struct_pre_init(ctx);
    let post_init = if ctx.kind.is_from() || ctx.struct_attr.quick_return.is_some() { None } else {
        struct_post_init(input, ctx)
    };
    ctx.has_post_init = post_init.is_some();

    match (ctx.kind, ctx.fallible) {
        (Kind::FromOwned, false) | (Kind::FromRef, false) => quote_from_trait(input, ctx, pre_init, main_code_block(ctx)),
        (Kind::FromOwned, true) | (Kind::FromRef, true) => quote_try_from_trait(input, ctx, pre_init, main_code_block_ok(ctx)),
        (Kind::OwnedInto, false) | (Kind::RefInto, false) => quote_into_trait(input, ctx, pre_init, main_code_block(ctx), post_init),
        (Kind::OwnedInto, true) | (Kind::RefInto, true) => quote_try_into_trait(input, ctx, pre_init, main_code_block_ok(ctx), post_init),
        (Kind::OwnedIntoExisting, false) | (Kind::RefIntoExisting, false) => quote_into_existing_trait(input, ctx, pre_init, main_code_block(ctx), post_init),
        (Kind::OwnedIntoExisting, true) | (Kind::RefIntoExisting, true) => quote_try_into_existing_trait(input, ctx, pre_init, main_code_block(ctx), post_init),
    }

}


// ---------------------------------------------------------------- data_type_impl: one impl per (kind, fallibility, instruction) (C04)
impl<'a> DataTypeAttrs {
#[verifier::external_body]
 fn iter_for_kind_core(&'a self, kind: &'a Kind, fallible: bool) -> (r: impl Iterator<Item = &TraitAttrCore>)
    ensures r.items() == sfilter(refs(self.attrs@), p_tkind(*kind, fallible)).map_values(tcore_of()),
{ let e: ::core::option::Option<Empty<&TraitAttrCore>> = ::core::option::Option::None; e.unwrap() }
}

impl<'a> DataType<'a> {
 fn get_ident(&'a self) -> (r: &Ident)
    ensures *r == (match *self { DataType::Struct(s) => *s.ident, DataType::Enum(e) => *e.ident }), // #own-name
{

        match self {
            DataType::Struct(s) => s.ident,
            DataType::Enum(e) => e.ident,
        }
    
}
}
impl<'a> DataType<'a> {
 fn get_attrs(&'a self) -> (r: &'a DataTypeAttrs)
    ensures *r == dt_attrs(*self), // #own-attrs
{

        match self {
            DataType::Struct(s) => &s.attrs,
            DataType::Enum(e) => &e.attrs,
        }
    
}
}

spec fn dt_ident<'a>(d: DataType<'a>) -> Ident { match d { DataType::Struct(s) => *s.ident, DataType::Enum(e) => *e.ident } }
spec fn dt_impl_type<'a>(d: DataType<'a>) -> ImplType { match d { DataType::Struct(_) => ImplType::Struct, DataType::Enum(_) => ImplType::Enum } }

// the conversion context of one requested impl: From kinds build the deriving type from the counterpart, the others the reverse
spec fn mk_ctx<'a>(input: &'a DataType<'a>, c: &'a TraitAttrCore, k: Kind, f: bool, ty: &'a TokenStream) -> ImplContext<'a> {
    ImplContext {
        input, impl_type: dt_impl_type(*input), struct_attr: c, kind: k,
        dst_ty: if k_is_from(k) { ty } else { &c.ty.path },
        src_ty: if k_is_from(k) { &c.ty.path } else { ty },
        has_post_init: false, fallible: f,
    }
}
spec fn mk_ctx_fn<'a>(input: &'a DataType<'a>, k: Kind, f: bool, ty: &'a TokenStream) -> spec_fn(&'a TraitAttrCore) -> ImplContext<'a> {
    |c: &'a TraitAttrCore| mk_ctx(input, c, k, f, ty)
}
// the instructions requesting (k, f), in the order written
spec fn ctxs_for<'a>(input: &'a DataType<'a>, k: Kind, f: bool, ty: &'a TokenStream) -> Seq<ImplContext<'a>> {
    sfilter(refs(dt_attrs(*input).attrs@), p_tkind(k, f)).map_values(tcore_of()).map_values(mk_ctx_fn(input, k, f, ty))
}
spec fn all_ctxs<'a>(input: &'a DataType<'a>, ty: &'a TokenStream) -> Seq<ImplContext<'a>> {
    Seq::<ImplContext>::empty()
    + ctxs_for(input, Kind::FromOwned, false, ty) + ctxs_for(input, Kind::FromOwned, true, ty)
    + ctxs_for(input, Kind::FromRef, false, ty) + ctxs_for(input, Kind::FromRef, true, ty)
    + ctxs_for(input, Kind::OwnedInto, false, ty) + ctxs_for(input, Kind::OwnedInto, true, ty)
    + ctxs_for(input, Kind::RefInto, false, ty) + ctxs_for(input, Kind::RefInto, true, ty)
    + ctxs_for(input, Kind::OwnedIntoExisting, false, ty) + ctxs_for(input, Kind::OwnedIntoExisting, true, ty)
    + ctxs_for(input, Kind::RefIntoExisting, false, ty) + ctxs_for(input, Kind::RefIntoExisting, true, ty)
}
spec fn impl_of<'a>(input: &'a DataType<'a>) -> spec_fn(ImplContext<'a>) -> Toks { |c: ImplContext<'a>| spec_impl(*input, c) }
spec fn ctx_ok<'a>(c: ImplContext<'a>) -> bool { (c.fallible ==> c.struct_attr.err_ty is Some) && body_pre(c) }

#[verifier::rlimit(2000)]
fn data_type_impl(input: DataType) -> (r: TokenStream)
    requires
        forall|j: int| 0 <= j < dt_attrs(input).attrs@.len() ==> ((#[trigger] dt_attrs(input).attrs@[j]).fallible ==> dt_attrs(input).attrs@[j].core.err_ty is Some), // #fallible-instructions-declare-an-error-type [C16]
        // for every impl that can be requested: the body builders' preconditions hold
        forall|j: int| #![trigger dt_attrs(input).attrs@[j]] 0 <= j < dt_attrs(input).attrs@.len() ==> (forall|k: Kind, f: bool, ty: TokenStream|
            appl(dt_attrs(input).attrs@[j].applicable_to, k) && f == dt_attrs(input).attrs@[j].fallible
            ==> body_pre(#[trigger] mk_ctx(&input, &dt_attrs(input).attrs@[j].core, k, f, &ty))), // #body-preconditions-for-every-requested-impl [C16]
    ensures
        forall|ty: TokenStream| ty@ == dt_ident(input).toks() ==> r@ == flat(#[trigger] all_ctxs(&input, &ty).map_values(impl_of(&input))), // #one-impl-per-requested-kind-fallibility-instruction
{
broadcast use {flat_lemmas::group_flat, flat_lemmas::group_seq, ts_axioms::axiom_token_stream_is_its_tokens};

    let ty = input.get_ident().to_token_stream();
    let attrs = input.get_attrs();

    let impl_type = match input {
        DataType::Struct(_) => ImplType::Struct,
        DataType::Enum(_) => ImplType::Enum,
    };

    let impls = std::iter::empty().chain(attrs.iter_for_kind_core(&Kind::FromOwned, false).map(    |struct_attr: &TraitAttrCore| -> (r: ImplContext) ensures r == mk_ctx(&input, struct_attr, Kind::FromOwned, false, &ty)  {ImplContext {
        input: &input, impl_type, struct_attr,
        kind: Kind::FromOwned,
        dst_ty: &ty,
        src_ty: &struct_attr.ty.path,
        has_post_init: false,
        fallible: false,
    }} )).chain(attrs.iter_for_kind_core(&Kind::FromOwned, true).map(    |struct_attr: &TraitAttrCore| -> (r: ImplContext) ensures r == mk_ctx(&input, struct_attr, Kind::FromOwned, true, &ty)  {ImplContext {
        input: &input, impl_type, struct_attr,
        kind: Kind::FromOwned,
        dst_ty: &ty,
        src_ty: &struct_attr.ty.path,
        has_post_init: false,
        fallible: true,
    }} )).chain(attrs.iter_for_kind_core(&Kind::FromRef, false).map(    |struct_attr: &TraitAttrCore| -> (r: ImplContext) ensures r == mk_ctx(&input, struct_attr, Kind::FromRef, false, &ty)  {ImplContext {
        input: &input, impl_type, struct_attr,
        kind: Kind::FromRef,
        dst_ty: &ty,
        src_ty: &struct_attr.ty.path,
        has_post_init: false,
        fallible: false,
    }} )).chain(attrs.iter_for_kind_core(&Kind::FromRef, true).map(    |struct_attr: &TraitAttrCore| -> (r: ImplContext) ensures r == mk_ctx(&input, struct_attr, Kind::FromRef, true, &ty)  {ImplContext {
        input: &input, impl_type, struct_attr,
        kind: Kind::FromRef,
        dst_ty: &ty,
        src_ty: &struct_attr.ty.path,
        has_post_init: false,
        fallible: true,
    }} )).chain(attrs.iter_for_kind_core(&Kind::OwnedInto, false).map(    |struct_attr: &TraitAttrCore| -> (r: ImplContext) ensures r == mk_ctx(&input, struct_attr, Kind::OwnedInto, false, &ty)  {ImplContext {
        input: &input, impl_type, struct_attr,
        kind: Kind::OwnedInto,
        dst_ty: &struct_attr.ty.path,
        src_ty: &ty,
        has_post_init: false,
        fallible: false,
    }} )).chain(attrs.iter_for_kind_core(&Kind::OwnedInto, true).map(    |struct_attr: &TraitAttrCore| -> (r: ImplContext) ensures r == mk_ctx(&input, struct_attr, Kind::OwnedInto, true, &ty)  {ImplContext {
        input: &input, impl_type, struct_attr,
        kind: Kind::OwnedInto,
        dst_ty: &struct_attr.ty.path,
        src_ty: &ty,
        has_post_init: false,
        fallible: true,
    }} )).chain(attrs.iter_for_kind_core(&Kind::RefInto, false).map(    |struct_attr: &TraitAttrCore| -> (r: ImplContext) ensures r == mk_ctx(&input, struct_attr, Kind::RefInto, false, &ty)  {ImplContext {
        input: &input, impl_type, struct_attr,
        kind: Kind::RefInto,
        dst_ty: &struct_attr.ty.path,
        src_ty: &ty,
        has_post_init: false,
        fallible: false,
    }} )).chain(attrs.iter_for_kind_core(&Kind::RefInto, true).map(    |struct_attr: &TraitAttrCore| -> (r: ImplContext) ensures r == mk_ctx(&input, struct_attr, Kind::RefInto, true, &ty)  {ImplContext {
        input: &input, impl_type, struct_attr,
        kind: Kind::RefInto,
        dst_ty: &struct_attr.ty.path,
        src_ty: &ty,
        has_post_init: false,
        fallible: true,
    }} )).chain(attrs.iter_for_kind_core(&Kind::OwnedIntoExisting, false).map(    |struct_attr: &TraitAttrCore| -> (r: ImplContext) ensures r == mk_ctx(&input, struct_attr, Kind::OwnedIntoExisting, false, &ty)  {ImplContext {
        input: &input, impl_type, struct_attr,
        kind: Kind::OwnedIntoExisting,
        dst_ty: &struct_attr.ty.path,
        src_ty: &ty,
        has_post_init: false,
        fallible: false,
    }} )).chain(attrs.iter_for_kind_core(&Kind::OwnedIntoExisting, true).map(    |struct_attr: &TraitAttrCore| -> (r: ImplContext) ensures r == mk_ctx(&input, struct_attr, Kind::OwnedIntoExisting, true, &ty)  {ImplContext {
        input: &input, impl_type, struct_attr,
        kind: Kind::OwnedIntoExisting,
        dst_ty: &struct_attr.ty.path,
        src_ty: &ty,
        has_post_init: false,
        fallible: true,
    }} )).chain(attrs.iter_for_kind_core(&Kind::RefIntoExisting, false).map(    |struct_attr: &TraitAttrCore| -> (r: ImplContext) ensures r == mk_ctx(&input, struct_attr, Kind::RefIntoExisting, false, &ty)  {ImplContext {
        input: &input, impl_type, struct_attr,
        kind: Kind::RefIntoExisting,
        dst_ty: &struct_attr.ty.path,
        src_ty: &ty,
        has_post_init: false,
        fallible: false,
    }} )).chain(attrs.iter_for_kind_core(&Kind::RefIntoExisting, true).map(    |struct_attr: &TraitAttrCore| -> (r: ImplContext) ensures r == mk_ctx(&input, struct_attr, Kind::RefIntoExisting, true, &ty)  {ImplContext {
        input: &input, impl_type, struct_attr,
        kind: Kind::RefIntoExisting,
        dst_ty: &struct_attr.ty.path,
        src_ty: &ty,
        has_post_init: false,
        fallible: true,
    }} )).map(    |mut ctx: ImplContext| -> (r: TokenStream) requires ctx_ok(ctx) ensures r@ == spec_impl(input, ctx)  {quote_trait(&input, &mut ctx)} );

    quote! { #(#impls)* }

}


// ---------------------------------------------------------------- the entry point: parse, validate, emit (C04, C16)
// syn's input AST, as far as `derive` and the two `from_syn` look at it (ASSUMED shapes of the dependency's types)
pub struct Attribute { _p: ::core::marker::PhantomData<()> }
pub struct SynVariant { _p: ::core::marker::PhantomData<()> }
pub struct FieldsNamed { _p: ::core::marker::PhantomData<()> }
pub struct FieldsUnnamed { _p: ::core::marker::PhantomData<()> }
pub struct DataUnion { _p: ::core::marker::PhantomData<()> }
pub enum Fields { Named(FieldsNamed), Unnamed(FieldsUnnamed), Unit }
pub struct DataStruct { pub fields: Fields }
pub struct DataEnum { pub variants: Punctuated<SynVariant, Comma> }
pub enum Data { Struct(DataStruct), Enum(DataEnum), Union(DataUnion) }
pub struct DeriveInput { pub attrs: Vec<Attribute>, pub ident: Ident, pub generics: Generics, pub data: Data }

impl Error {
    #[verifier::external_body]
    pub fn new_spanned(tokens: &DeriveInput, message: &str) -> (r: Error) { unimplemented!() }
}


struct Context {
    variant_attrs_to_repeat: Option<MemberAttrs>,
    field_attrs_to_repeat: Option<(MemberAttrs, bool)>,
}
impl Default for Context {
    #[verifier::external_body]
    fn default() -> (r: Context) { unimplemented!() }
}

// what the (unreachable for the verifier: syn ParseStream, FnMut closures) front-ends produce: uninterpreted relations
pub uninterp spec fn parsed_type_attrs(attrs: Seq<Attribute>, out: DataTypeAttrs) -> bool;
// whether unknown instructions are reported (`allow_unknown` absent): a function of the type-level attributes
pub uninterp spec fn spec_bark(attrs: Seq<Attribute>) -> bool;
pub uninterp spec fn parsed_fields(fields: Fields, bark: bool, out: Seq<Field>) -> bool;
pub uninterp spec fn parsed_variants(variants: Seq<SynVariant>, bark: bool, out: Seq<Variant>) -> bool;

mod attr {
    use super::*;
    #[verifier::external_body]
    pub fn get_data_type_attrs(input: &Vec<Attribute>) -> (r: Result<(DataTypeAttrs, bool)>)
        ensures r is Ok ==> (parsed_type_attrs(input@, r->Ok_0.0) && r->Ok_0.1 == spec_bark(input@)),
    { unimplemented!() }
}

impl Field {
    #[verifier::external_body]
    fn multiple_from_syn(ctx: &mut Context, fields: &Fields, bark: bool) -> (r: Result<Vec<Field>>)
        ensures r is Ok ==> parsed_fields(*fields, bark, r->Ok_0@),
    { unimplemented!() }
}
impl Variant {
    #[verifier::external_body]
    fn multiple_from_syn(variants: &Punctuated<SynVariant, Comma>, bark: bool) -> (r: Result<Vec<Variant>>)
        ensures r is Ok ==> parsed_variants(variants.pseq(), bark, r->Ok_0@),
    { unimplemented!() }
}

// the deriving type's own name, generics and shape are taken from the item the attribute sits on; its instructions and members
// are what the front-ends parsed
spec fn struct_of<'a>(node: &'a DeriveInput, data: &'a DataStruct, s: Struct<'a>) -> bool {
    &&& *s.ident == node.ident
    &&& *s.generics == node.generics
    &&& s.named_fields == (data.fields is Named)
    &&& s.unit == (data.fields is Unit)
    &&& parsed_type_attrs(node.attrs@, s.attrs)
    &&& parsed_fields(data.fields, spec_bark(node.attrs@), s.fields@)
}
spec fn enum_of<'a>(node: &'a DeriveInput, data: &'a DataEnum, e: Enum<'a>) -> bool {
    &&& *e.ident == node.ident
    &&& *e.generics == node.generics
    &&& parsed_type_attrs(node.attrs@, e.attrs)
    &&& parsed_variants(data.variants.pseq(), spec_bark(node.attrs@), e.variants@)
}

impl<'a> Struct<'a> {
 fn from_syn(node: &'a DeriveInput, data: &'a DataStruct) -> (r: Result<Self>)
    ensures
        r is Ok ==> struct_of(node, data, r->Ok_0), // #own-name-generics-shape-from-the-item
{

        let (attrs, bark) = attr::get_data_type_attrs(&node.attrs)?;
        let fields = Field::multiple_from_syn(&mut Default::default(), &data.fields, bark)?;
        Ok(Struct {
            attrs,
            ident: &node.ident,
            generics: &node.generics,
            fields,
            named_fields: matches!(&data.fields, Fields::Named(_)),
            unit: matches!(&data.fields, Fields::Unit),
        })
    
}
}

impl<'a> Enum<'a> {
 fn from_syn(node: &'a DeriveInput, data: &'a DataEnum) -> (r: Result<Self>)
    ensures r is Ok ==> enum_of(node, data, r->Ok_0), // #own-name-generics-from-the-item
{

        let (attrs, bark) = attr::get_data_type_attrs(&node.attrs)?;
        let variants = Variant::multiple_from_syn(&data.variants, bark)?;
        Ok(Enum { attrs, ident: &node.ident, generics: &node.generics, variants })
    
}
}

// what validation has to establish for the emitters (everything `data_type_impl` requires).  ASSUMED of `validate`
// (HashMap<String, Span>, format!, generic loops: outside the verifier); TESTED by the C16 ledger.
spec fn emit_pre<'a>(input: DataType<'a>) -> bool {
    &&& forall|j: int| 0 <= j < dt_attrs(input).attrs@.len() ==> ((#[trigger] dt_attrs(input).attrs@[j]).fallible ==> dt_attrs(input).attrs@[j].core.err_ty is Some)
    &&& forall|j: int| #![trigger dt_attrs(input).attrs@[j]] 0 <= j < dt_attrs(input).attrs@.len() ==> (forall|k: Kind, f: bool, ty: TokenStream|
            appl(dt_attrs(input).attrs@[j].applicable_to, k) && f == dt_attrs(input).attrs@[j].fallible
            ==> body_pre(#[trigger] mk_ctx(&input, &dt_attrs(input).attrs@[j].core, k, f, &ty)))
}
#[verifier::external_body]
fn validate(input: &DataType) -> (r: Result<()>)
    ensures r is Ok ==> emit_pre(*input),
{ unimplemented!() }

// all impls of an input, in the fixed order of data_type_impl
spec fn all_impls<'a>(input: DataType<'a>, r: Toks) -> bool {
    forall|ty: TokenStream| ty@ == dt_ident(input).toks() ==> r == flat(#[trigger] all_ctxs(&input, &ty).map_values(impl_of(&input)))
}

 fn derive(node: &DeriveInput) -> (r: Result<TokenStream>)
    ensures
        // accepted: the item is a struct or an enum, its front-end view passed validation, and the result is exactly its impls
        r is Ok ==> (match node.data {
            Data::Struct(data) => exists|s: Struct| struct_of(node, &data, s) && emit_pre(DataType::Struct(&s)) && all_impls(DataType::Struct(&s), r->Ok_0@),
            Data::Enum(data) => exists|e: Enum| enum_of(node, &data, e) && emit_pre(DataType::Enum(&e)) && all_impls(DataType::Enum(&e), r->Ok_0@),
            Data::Union(_) => false,
        }), // #accepted-input-yields-exactly-its-impls
{

    match &node.data {
        Data::Struct(data) => {
            let input = Struct::from_syn(node, data)?;
            let input = DataType::Struct(&input);
            validate(&input)?;
            Ok(data_type_impl(input))
        },
        Data::Enum(data) => {
            let input = Enum::from_syn(node, data)?;
            let input = DataType::Enum(&input);
            validate(&input)?;
            Ok(data_type_impl(input))
        },
        _ => Err(Error::new_spanned(node, "#[derive(o2o)] only supports structs and enums.")),
    }

}

} // verus!

