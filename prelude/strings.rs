// ---- strings, errors, parsing: assumed contracts (trusted base) ----
pub mod str_axioms {
    use ::vstd::prelude::*;
    verus! {
    // pattern matching on &str uses str equality; String deref uses views.  One axiom relates the two.
    pub broadcast axiom fn axiom_str_eq_is_view_eq(a: &str, b: &str)
        ensures (a == b) == (#[trigger] a@ == #[trigger] b@);
    }
}

verus! {

#[verifier::external_body]
pub struct Error { _p: ::core::marker::PhantomData<()> }

pub type Result<T> = ::core::result::Result<T, Error>;

impl Ident {
    #[verifier::external_body]
    pub fn to_string(&self) -> (r: String)
        ensures r@ == self.name(),
    { unimplemented!() }

    #[verifier::external_body]
    pub fn span(&self) -> (r: Span) { unimplemented!() }
}

// Display of a token stream; a single identifier prints as its name (proc_macro2)
pub uninterp spec fn toks_to_string(t: Seq<Tok>) -> Seq<char>;

impl TokenStream {
    #[verifier::external_body]
    pub fn to_string(&self) -> (r: String)
        ensures
            r@ == toks_to_string(self@),
            forall|n: Seq<char>| self@ == seq![Tok::Id(n)] ==> r@ == n,
    { unimplemented!() }
}

pub assume_specification [<::std::string::String as ::std::convert::AsRef<str>>::as_ref] (s: &::std::string::String) -> (r: &str)
    ensures r@ == s@;

// the result of parsing a token stream is a function of the tokens (whatever syn does, it does it deterministically)
pub uninterp spec fn spec_parse2<T>(t: Seq<Tok>) -> Result<T>;

} // verus!

pub mod syn_parse {
    use super::*;
    verus! {
    #[verifier::external_body]
    pub fn parse2<T>(tokens: TokenStream) -> (r: Result<T>)
        ensures r == spec_parse2::<T>(tokens@),
    { unimplemented!() }
    }
}

verus! {
}

verus! {
impl Error {
    #[verifier::external_body]
    pub fn new(span: Span, message: &str) -> (r: Error) { unimplemented!() }
}
pub trait Spanned {
    fn span(&self) -> Span;
}
impl Spanned for Option<TokenStream> {
    #[verifier::external_body]
    fn span(&self) -> (r: Span) { unimplemented!() }
}
}

