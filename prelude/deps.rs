// ---- dependency stubs: assumed contracts on proc_macro2 / syn / quote / std (trusted base) ----
// Nothing in this file is code of /repo.  Every fn here is external_body: its contract is ASSUMED.

macro_rules! format_ident {
    ("f{}", $e:expr) => { mk_f_ident(&$e) };
}

macro_rules! Token {
    [,] => { Comma };
    [.] => { Dot };
    [:] => { Colon };
}

verus! {

pub struct Comma {}
pub struct Dot {}
pub struct Colon {}

pub struct Span {}

impl Span {
    #[verifier::external_body]
    pub fn call_site() -> (r: Span) { unimplemented!() }
}

impl Clone for Span {
    #[verifier::external_body]
    fn clone(&self) -> (r: Span) { unimplemented!() }
}
impl Copy for Span {}

// ---------------------------------------------------------------- Ident / Index / Member (mirrors syn)
#[verifier::external_body]
pub struct Ident { _p: ::core::marker::PhantomData<()> }

impl Ident {
    pub uninterp spec fn name(&self) -> Seq<char>;
}

impl Clone for Ident {
    #[verifier::external_body]
    fn clone(&self) -> (r: Ident)
        ensures r == *self,
    { unimplemented!() }
}

impl ToTokens for Ident {
    open spec fn toks(&self) -> Seq<Tok> { seq![Tok::Id(self.name())] }
    #[verifier::external_body]
    fn to_tokens(&self, tokens: &mut TokenStream) { unimplemented!() }
    #[verifier::external_body]
    fn to_token_stream(&self) -> (r: TokenStream) { unimplemented!() }
}

pub struct Index { pub index: u32, pub span: Span }

impl Clone for Index {
    #[verifier::external_body]
    fn clone(&self) -> (r: Index)
        ensures r == *self,
    { unimplemented!() }
}

impl ToTokens for Index {
    open spec fn toks(&self) -> Seq<Tok> { seq![Tok::Int(self.index as int)] }
    #[verifier::external_body]
    fn to_tokens(&self, tokens: &mut TokenStream) { unimplemented!() }
    #[verifier::external_body]
    fn to_token_stream(&self) -> (r: TokenStream) { unimplemented!() }
}

pub enum Member { Named(Ident), Unnamed(Index) }
pub use Member::{Named, Unnamed};

impl Clone for Member {
    #[verifier::external_body]
    fn clone(&self) -> (r: Member)
        ensures r == *self,
    { unimplemented!() }
}

impl ToTokens for Member {
    open spec fn toks(&self) -> Seq<Tok> {
        match self { Member::Named(i) => i.toks(), Member::Unnamed(i) => i.toks() }
    }
    #[verifier::external_body]
    fn to_tokens(&self, tokens: &mut TokenStream) { unimplemented!() }
    #[verifier::external_body]
    fn to_token_stream(&self) -> (r: TokenStream) { unimplemented!() }
}

// ---------------------------------------------------------------- format_ident!("f{}", e)
// model: the identifier whose name is "f" followed by the fragment text of e; decimal text of an integer is `dec(n)`
pub uninterp spec fn dec(n: int) -> Seq<char>;
pub open spec fn f_name(frag: Seq<char>) -> Seq<char> { seq!['f'] + frag }
pub open spec fn f_tok(n: int) -> Toks { seq![Tok::Id(f_name(dec(n)))] }

pub trait IdentFragment {
    spec fn frag(&self) -> Seq<char>;
}
impl IdentFragment for usize { open spec fn frag(&self) -> Seq<char> { dec(*self as int) } }
impl IdentFragment for u32 { open spec fn frag(&self) -> Seq<char> { dec(*self as int) } }
impl IdentFragment for Member {
    open spec fn frag(&self) -> Seq<char> {
        match self { Member::Named(i) => i.name(), Member::Unnamed(i) => dec(i.index as int) }
    }
}

#[verifier::external_body]
pub fn mk_f_ident<T: IdentFragment>(e: &T) -> (r: Ident)
    ensures r.name() == f_name(e.frag()),
{ unimplemented!() }

// ---------------------------------------------------------------- opaque syn values that only flow into tokens
#[verifier::external_body]
#[verifier::reject_recursive_types(T)]
#[verifier::reject_recursive_types(P)]
pub struct Punctuated<T, P> { _p: ::core::marker::PhantomData<(T, P)> }
impl<T, P> Punctuated<T, P> {
    pub uninterp spec fn ptoks(&self) -> Seq<Tok>;
    // the elements, in order
    pub uninterp spec fn pseq(&self) -> Seq<T>;
}
impl<T, P> ToTokens for Punctuated<T, P> {
    open spec fn toks(&self) -> Seq<Tok> { self.ptoks() }
    #[verifier::external_body]
    fn to_tokens(&self, tokens: &mut TokenStream) { unimplemented!() }
    #[verifier::external_body]
    fn to_token_stream(&self) -> (r: TokenStream) { unimplemented!() }
}
impl<T, P> Clone for Punctuated<T, P> {
    #[verifier::external_body]
    fn clone(&self) -> (r: Self) ensures r == *self, { unimplemented!() }
}

#[verifier::external_body]
pub struct Path { _p: ::core::marker::PhantomData<()> }
impl Path { pub uninterp spec fn ptoks(&self) -> Seq<Tok>; }
impl ToTokens for Path {
    open spec fn toks(&self) -> Seq<Tok> { self.ptoks() }
    #[verifier::external_body]
    fn to_tokens(&self, tokens: &mut TokenStream) { unimplemented!() }
    #[verifier::external_body]
    fn to_token_stream(&self) -> (r: TokenStream) { unimplemented!() }
}
impl Clone for Path {
    #[verifier::external_body]
    fn clone(&self) -> (r: Self) ensures r == *self, { unimplemented!() }
}

#[verifier::external_body]
pub struct Generics { _p: ::core::marker::PhantomData<()> }
impl Generics { pub uninterp spec fn ptoks(&self) -> Seq<Tok>; }
impl ToTokens for Generics {
    open spec fn toks(&self) -> Seq<Tok> { self.ptoks() }
    #[verifier::external_body]
    fn to_tokens(&self, tokens: &mut TokenStream) { unimplemented!() }
    #[verifier::external_body]
    fn to_token_stream(&self) -> (r: TokenStream) { unimplemented!() }
}

#[verifier::external_body]
pub struct AngleBracketedGenericArguments { _p: ::core::marker::PhantomData<()> }
impl AngleBracketedGenericArguments { pub uninterp spec fn ptoks(&self) -> Seq<Tok>; }
impl ToTokens for AngleBracketedGenericArguments {
    open spec fn toks(&self) -> Seq<Tok> { self.ptoks() }
    #[verifier::external_body]
    fn to_tokens(&self, tokens: &mut TokenStream) { unimplemented!() }
    #[verifier::external_body]
    fn to_token_stream(&self) -> (r: TokenStream) { unimplemented!() }
}
impl Clone for AngleBracketedGenericArguments {
    #[verifier::external_body]
    fn clone(&self) -> (r: Self) ensures r == *self, { unimplemented!() }
}

#[verifier::external_body]
pub struct WherePredicate { _p: ::core::marker::PhantomData<()> }

} // verus!

verus! {
#[verifier::external_body]
pub struct SynType { _p: ::core::marker::PhantomData<()> }
impl SynType { pub uninterp spec fn ptoks(&self) -> Seq<Tok>; }
impl ToTokens for SynType {
    open spec fn toks(&self) -> Seq<Tok> { self.ptoks() }
    #[verifier::external_body]
    fn to_tokens(&self, tokens: &mut TokenStream) { unimplemented!() }
    #[verifier::external_body]
    fn to_token_stream(&self) -> (r: TokenStream) { unimplemented!() }
}
pub struct SynField { pub ty: SynType }
}

pub mod syn {
    pub use super::Error;
    pub use super::SynField as Field;
    pub use super::SynType as Type;
    pub use super::syn_parse::parse2;
    pub use super::Path;
    pub use super::Member;
    pub use super::Index;
}
