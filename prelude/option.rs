// ---- Option adapters: assumed contracts on core::option (trusted base) ----
verus! {

pub assume_specification<T, F> [core::option::Option::<T>::or_else] (o: Option<T>, f: F) -> (r: Option<T>)
    where F: FnOnce() -> Option<T> + core::marker::Destruct, T: core::marker::Destruct,
    requires o is None ==> f.requires(()),
    ensures
        o is Some ==> r == o,
        o is None ==> f.ensures((), r);

} // verus!
