// ---- Option adapters: assumed contracts on ::core::option (trusted base) ----
verus! {

pub assume_specification<T, F> [::core::option::Option::<T>::or_else] (o: Option<T>, f: F) -> (r: Option<T>)
    where F: FnOnce() -> Option<T> + ::core::marker::Destruct, T: ::core::marker::Destruct,
    requires o is None ==> f.requires(()),
    ensures
        o is Some ==> r == o,
        o is None ==> f.ensures((), r);

} // verus!

verus! {
pub assume_specification<T, U, F> [::core::option::Option::<T>::map_or] (o: Option<T>, default: U, f: F) -> (r: U)
    where F: FnOnce(T) -> U + ::core::marker::Destruct, T: ::core::marker::Destruct, U: ::core::marker::Destruct,
    requires o is Some ==> f.requires((o->0,)),
    ensures
        o is None ==> r == default,
        o is Some ==> f.ensures((o->0,), r);

pub assume_specification<T, F> [::core::option::Option::<T>::is_some_and] (o: Option<T>, f: F) -> (r: bool)
    where F: FnOnce(T) -> bool + ::core::marker::Destruct, T: ::core::marker::Destruct,
    requires o is Some ==> f.requires((o->0,)),
    ensures
        o is None ==> !r,
        o is Some ==> f.ensures((o->0,), r);
} // verus!
