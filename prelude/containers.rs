// ---- container stubs: assumed contracts on Vec / slice::Iter / Option adapters (trusted base) ----
verus! {

#[verifier::external_body]
#[verifier::reject_recursive_types(T)]
pub struct Vec<T> { _p: core::marker::PhantomData<T> }

impl<T> View for Vec<T> {
    type V = Seq<T>;
    uninterp spec fn view(&self) -> Seq<T>;
}

impl<T> Vec<T> {
    #[verifier::external_body]
    pub fn new() -> (r: Vec<T>)
        ensures r@ =~= Seq::<T>::empty(),
    { unimplemented!() }

    #[verifier::external_body]
    pub fn is_empty(&self) -> (r: bool)
        ensures r == (self@.len() == 0),
    { unimplemented!() }

    #[verifier::external_body]
    pub fn iter<'a>(&'a self) -> (r: Iter<'a, T>)
        ensures r@ == self@,
    { unimplemented!() }

    #[verifier::external_body]
    pub fn push(&mut self, t: T)
        ensures final(self)@ == old(self)@.push(t),
    { unimplemented!() }

    #[verifier::external_body]
    pub fn extend(&mut self, other: Vec<T>)
        ensures final(self)@ == old(self)@ + other@,
    { unimplemented!() }
}

impl<T: Clone> Clone for Vec<T> {
    #[verifier::external_body]
    fn clone(&self) -> (r: Vec<T>)
        ensures r@ == self@,
    { unimplemented!() }
}

impl<T> Default for Vec<T> {
    #[verifier::external_body]
    fn default() -> (r: Vec<T>)
        ensures r@ =~= Seq::<T>::empty(),
    { unimplemented!() }
}

#[verifier::external_body]
#[verifier::reject_recursive_types(T)]
pub struct Iter<'a, T> { _p: core::marker::PhantomData<&'a T> }

impl<'a, T> View for Iter<'a, T> {
    type V = Seq<T>;
    uninterp spec fn view(&self) -> Seq<T>;
}

} // verus!
