// ---- container stubs: assumed contracts on Vec / slice::Iter / Option adapters (trusted base) ----
verus! {

#[verifier::external_body]
#[verifier::reject_recursive_types(T)]
pub struct Vec<T> { _p: core::marker::PhantomData<T> }

impl<T> View for Vec<T> {
    type V = Seq<T>;
    uninterp spec fn view(&self) -> Seq<T>;
}

impl<T> Vec<T> {
    #[verifier::external_body]
    pub fn new() -> (r: Vec<T>)
        ensures r@ =~= Seq::<T>::empty(),
    { unimplemented!() }

    #[verifier::external_body]
    pub fn is_empty(&self) -> (r: bool)
        ensures r == (self@.len() == 0),
    { unimplemented!() }

    #[verifier::external_body]
    pub fn iter<'a>(&'a self) -> (r: Iter<'a, T>)
        ensures r@ == self@, r.items() == refs(self@),
    { unimplemented!() }

    #[verifier::external_body]
    pub fn push(&mut self, t: T)
        ensures final(self)@ == old(self)@.push(t),
    { unimplemented!() }

    #[verifier::external_body]
    pub fn extend(&mut self, other: Vec<T>)
        ensures final(self)@ == old(self)@ + other@,
    { unimplemented!() }
}

impl<T: Clone> Clone for Vec<T> {
    #[verifier::external_body]
    fn clone(&self) -> (r: Vec<T>)
        ensures r@ == self@,
    { unimplemented!() }
}

impl<T> Default for Vec<T> {
    #[verifier::external_body]
    fn default() -> (r: Vec<T>)
        ensures r@ =~= Seq::<T>::empty(),
    { unimplemented!() }
}

#[verifier::external_body]
#[verifier::reject_recursive_types(T)]
pub struct Iter<'a, T> { _p: core::marker::PhantomData<&'a T> }

impl<'a, T> View for Iter<'a, T> {
    type V = Seq<T>;
    uninterp spec fn view(&self) -> Seq<T>;
}

} // verus!

// ---------------------------------------------------------------- iterator adapters (ASSUMED contracts on core::iter)
verus! {

// first element of `s` satisfying `q`
pub open spec fn first<T>(s: Seq<T>, q: spec_fn(T) -> bool) -> Option<T>
    decreases s.len(),
{
    if s.len() == 0 {
        None
    } else if q(s[0]) {
        Some(s[0])
    } else {
        first(s.drop_first(), q)
    }
}

// the subsequence of the elements satisfying `q`, order kept
pub open spec fn sfilter<T>(s: Seq<T>, q: spec_fn(T) -> bool) -> Seq<T>
    decreases s.len(),
{
    if s.len() == 0 {
        Seq::<T>::empty()
    } else if q(s[0]) {
        seq![s[0]] + sfilter(s.drop_first(), q)
    } else {
        sfilter(s.drop_first(), q)
    }
}

// the sequence of references to the elements of `s` (what slice::Iter yields)
pub open spec fn refs<'a, T>(s: Seq<T>) -> Seq<&'a T> { Seq::new(s.len(), |i: int| &s[i]) }

// an executable predicate closure `f` decides the spec predicate `q`
pub open spec fn decides<T, F: Fn(&T) -> bool>(f: F, q: spec_fn(T) -> bool) -> bool {
    &&& forall|t: T| #[trigger] f.requires((&t,))
    &&& forall|t: T| #[trigger] f.ensures((&t,), true) ==> q(t)
    &&& forall|t: T| #[trigger] f.ensures((&t,), false) ==> !q(t)
}

pub trait Iterator: Sized {
    type Item;

    // the elements still to be yielded
    spec fn items(&self) -> Seq<Self::Item>;

    // core::iter::Iterator::find: the first element on which the predicate returns true
    fn find<P: Fn(&Self::Item) -> bool>(&mut self, predicate: P) -> (r: Option<Self::Item>)
        requires forall|t: Self::Item| #[trigger] predicate.requires((&t,)),
        ensures forall|q: spec_fn(Self::Item) -> bool| decides(predicate, q) ==> r == #[trigger] first(old(self).items(), q);

    // core::iter::Iterator::filter: the subsequence on which the predicate returns true
    fn filter<P: Fn(&Self::Item) -> bool>(self, predicate: P) -> (r: Filter<Self::Item, P>)
        requires forall|t: Self::Item| #[trigger] predicate.requires((&t,)),
        ensures forall|q: spec_fn(Self::Item) -> bool| decides(predicate, q) ==> r.fitems() == #[trigger] sfilter(self.items(), q);

    // core::iter::Iterator::map
    fn map<B, F: Fn(Self::Item) -> B>(self, f: F) -> (r: Map<B, F>)
        requires forall|t: Self::Item| #[trigger] f.requires((t,)),
        ensures forall|g: spec_fn(Self::Item) -> B| (forall|t: Self::Item, b: B| #[trigger] f.ensures((t,), b) ==> b == g(t))
            ==> r.mitems() == #[trigger] self.items().map_values(g);

    // core::iter::Iterator::any
    fn any<P: Fn(Self::Item) -> bool>(&mut self, predicate: P) -> (r: bool)
        requires forall|t: Self::Item| #[trigger] predicate.requires((t,)),
        ensures forall|q: spec_fn(Self::Item) -> bool|
            ((forall|t: Self::Item| #[trigger] predicate.ensures((t,), true) ==> q(t)) && (forall|t: Self::Item| #[trigger] predicate.ensures((t,), false) ==> !q(t)))
            ==> r == (#[trigger] first(old(self).items(), q) is Some);
}

impl<'a, T> Iterator for Iter<'a, T> {
    type Item = &'a T;
    open spec fn items(&self) -> Seq<&'a T> { refs(self@) }
    #[verifier::external_body]
    fn find<P: Fn(&Self::Item) -> bool>(&mut self, predicate: P) -> (r: Option<Self::Item>) { unimplemented!() }
    #[verifier::external_body]
    fn filter<P: Fn(&Self::Item) -> bool>(self, predicate: P) -> (r: Filter<Self::Item, P>) { unimplemented!() }
    #[verifier::external_body]
    fn any<P: Fn(Self::Item) -> bool>(&mut self, predicate: P) -> (r: bool) { unimplemented!() }
    #[verifier::external_body]
    fn map<B, F: Fn(Self::Item) -> B>(self, f: F) -> (r: Map<B, F>) { unimplemented!() }
}

#[verifier::external_body]
#[verifier::reject_recursive_types(T)]
#[verifier::reject_recursive_types(P)]
pub struct Filter<T, P> { _p: core::marker::PhantomData<(T, P)> }

impl<T, P> Filter<T, P> {
    pub uninterp spec fn fitems(&self) -> Seq<T>;
}

impl<T, P0> Iterator for Filter<T, P0> {
    type Item = T;
    open spec fn items(&self) -> Seq<T> { self.fitems() }
    #[verifier::external_body]
    fn find<P: Fn(&Self::Item) -> bool>(&mut self, predicate: P) -> (r: Option<Self::Item>) { unimplemented!() }
    #[verifier::external_body]
    fn filter<P: Fn(&Self::Item) -> bool>(self, predicate: P) -> (r: Filter<Self::Item, P>) { unimplemented!() }
    #[verifier::external_body]
    fn any<P: Fn(Self::Item) -> bool>(&mut self, predicate: P) -> (r: bool) { unimplemented!() }
    #[verifier::external_body]
    fn map<B, F: Fn(Self::Item) -> B>(self, f: F) -> (r: Map<B, F>) { unimplemented!() }
}


#[verifier::external_body]
#[verifier::reject_recursive_types(T)]
#[verifier::reject_recursive_types(F)]
pub struct Map<T, F> { _p: core::marker::PhantomData<(T, F)> }

impl<T, F> Map<T, F> {
    pub uninterp spec fn mitems(&self) -> Seq<T>;
}

impl<T, F0> Iterator for Map<T, F0> {
    type Item = T;
    open spec fn items(&self) -> Seq<T> { self.mitems() }
    #[verifier::external_body]
    fn find<P: Fn(&Self::Item) -> bool>(&mut self, predicate: P) -> (r: Option<Self::Item>) { unimplemented!() }
    #[verifier::external_body]
    fn filter<P: Fn(&Self::Item) -> bool>(self, predicate: P) -> (r: Filter<Self::Item, P>) { unimplemented!() }
    #[verifier::external_body]
    fn any<P: Fn(Self::Item) -> bool>(&mut self, predicate: P) -> (r: bool) { unimplemented!() }
    #[verifier::external_body]
    fn map<B, F: Fn(Self::Item) -> B>(self, f: F) -> (r: Map<B, F>) { unimplemented!() }
}

} // verus!
