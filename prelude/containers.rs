// ---- container stubs: assumed contracts on Vec / slice::Iter / Option adapters (trusted base) ----
verus! {

#[verifier::external_body]
#[verifier::reject_recursive_types(T)]
pub struct Vec<T> { _p: ::core::marker::PhantomData<T> }

impl<T> View for Vec<T> {
    type V = Seq<T>;
    uninterp spec fn view(&self) -> Seq<T>;
}

impl<T> Vec<T> {
    #[verifier::external_body]
    pub fn new() -> (r: Vec<T>)
        ensures r@ =~= Seq::<T>::empty(),
    { unimplemented!() }

    #[verifier::external_body]
    pub fn is_empty(&self) -> (r: bool)
        ensures r == (self@.len() == 0),
    { unimplemented!() }

    #[verifier::external_body]
    pub fn iter<'a>(&'a self) -> (r: Iter<'a, T>)
        ensures r@ == self@, r.items() == refs(self@),
    { unimplemented!() }

    #[verifier::external_body]
    pub fn push(&mut self, t: T)
        ensures final(self)@ == old(self)@.push(t),
    { unimplemented!() }

    #[verifier::external_body]
    pub fn extend<I: IntoIter<Item = T>>(&mut self, other: I)
        ensures final(self)@ == old(self)@ + other.into_items(),
    { unimplemented!() }
}

impl<T> Vec<T> {
    #[verifier::external_body]
    pub fn len(&self) -> (r: usize)
        ensures r == self@.len(),
    { unimplemented!() }

    #[verifier::external_body]
    pub fn first(&self) -> (r: Option<&T>)
        ensures self@.len() == 0 ==> r is None, self@.len() > 0 ==> r == Some(&self@[0]),
    { unimplemented!() }

    #[verifier::external_body]
    pub fn last(&self) -> (r: Option<&T>)
        ensures self@.len() == 0 ==> r is None, self@.len() > 0 ==> r == Some(&self@[self@.len() - 1]),
    { unimplemented!() }
}

// v[i]
impl<T> ::vstd::std_specs::core::IndexSpecImpl<usize> for Vec<T> {
    open spec fn index_req(&self, index: &usize) -> bool { *index < self@.len() }
}
impl<T> ::core::ops::Index<usize> for Vec<T> {
    type Output = T;
    #[verifier::external_body]
    fn index(&self, index: usize) -> (r: &T)
        ensures *r == self@[index as int],
    { unimplemented!() }
}

impl<T: Clone> Clone for Vec<T> {
    #[verifier::external_body]
    fn clone(&self) -> (r: Vec<T>)
        ensures r@ == self@,
    { unimplemented!() }
}

impl<T> Default for Vec<T> {
    #[verifier::external_body]
    fn default() -> (r: Vec<T>)
        ensures r@ =~= Seq::<T>::empty(),
    { unimplemented!() }
}

#[verifier::external_body]
#[verifier::reject_recursive_types(T)]
pub struct Iter<'a, T> { _p: ::core::marker::PhantomData<&'a T> }

impl<'a, T> View for Iter<'a, T> {
    type V = Seq<T>;
    uninterp spec fn view(&self) -> Seq<T>;
}

} // verus!

// ---------------------------------------------------------------- iterator adapters (ASSUMED contracts on ::core::iter)
verus! {

// first element of `s` satisfying `q`
pub open spec fn first<T>(s: Seq<T>, q: spec_fn(T) -> bool) -> Option<T>
    decreases s.len(),
{
    if s.len() == 0 {
        None
    } else if q(s[0]) {
        Some(s[0])
    } else {
        first(s.drop_first(), q)
    }
}

// the subsequence of the elements satisfying `q`, order kept
pub open spec fn sfilter<T>(s: Seq<T>, q: spec_fn(T) -> bool) -> Seq<T>
    decreases s.len(),
{
    if s.len() == 0 {
        Seq::<T>::empty()
    } else if q(s[0]) {
        seq![s[0]] + sfilter(s.drop_first(), q)
    } else {
        sfilter(s.drop_first(), q)
    }
}

// every element of `s` satisfies `q`
pub open spec fn sall<T>(s: Seq<T>, q: spec_fn(T) -> bool) -> bool { forall|i: int| 0 <= i < s.len() ==> q(#[trigger] s[i]) }

// the sequence of references to the elements of `s` (what slice::Iter yields)
pub open spec fn refs<'a, T>(s: Seq<T>) -> Seq<&'a T> { Seq::new(s.len(), |i: int| &s[i]) }

// an executable predicate closure `f` decides the spec predicate `q`
pub open spec fn decides<T, F: Fn(&T) -> bool>(f: F, q: spec_fn(T) -> bool) -> bool {
    &&& forall|t: T| #[trigger] f.requires((&t,))
    &&& forall|t: T| #[trigger] f.ensures((&t,), true) ==> q(t)
    &&& forall|t: T| #[trigger] f.ensures((&t,), false) ==> !q(t)
}

pub trait IntoIter {
    type Item;
    // the elements it yields when iterated
    spec fn into_items(&self) -> Seq<Self::Item>;
}

pub trait FromIter<T>: Sized {
    // the elements the collection was built from, in order
    spec fn collected(&self) -> Seq<T>;
}

// concatenation of a sequence of sequences
pub open spec fn sflat<A>(s: Seq<Seq<A>>) -> Seq<A>
    decreases s.len(),
{
    if s.len() == 0 { Seq::<A>::empty() } else { s[0] + sflat(s.drop_first()) }
}

pub trait Iterator: Sized {
    type Item;

    // the elements still to be yielded
    spec fn items(&self) -> Seq<Self::Item>;

    // ::core::iter::Iterator::find: the first element on which the predicate returns true
    fn find<P: Fn(&Self::Item) -> bool>(&mut self, predicate: P) -> (r: Option<Self::Item>)
        requires forall|t: Self::Item| #[trigger] predicate.requires((&t,)),
        ensures forall|q: spec_fn(Self::Item) -> bool| decides(predicate, q) ==> r == #[trigger] first(old(self).items(), q);

    // ::core::iter::Iterator::filter: the subsequence on which the predicate returns true
    fn filter<P: Fn(&Self::Item) -> bool>(self, predicate: P) -> (r: Filter<Self::Item, P>)
        requires forall|t: Self::Item| #[trigger] predicate.requires((&t,)),
        ensures forall|q: spec_fn(Self::Item) -> bool| decides(predicate, q) ==> r.fitems() == #[trigger] sfilter(self.items(), q);

    // ::core::iter::Iterator::map: functional form (closure computes g) and relational form (i-th output is what the
    // closure returns on the i-th input)
    fn map<B, F: Fn(Self::Item) -> B>(self, f: F) -> (r: Map<B, F>)
        requires forall|i: int| 0 <= i < self.items().len() ==> f.requires((#[trigger] self.items()[i],)),
        ensures
            forall|g: spec_fn(Self::Item) -> B| (forall|t: Self::Item, b: B| #[trigger] f.ensures((t,), b) ==> b == g(t))
                ==> r.mitems() == #[trigger] self.items().map_values(g),
            r.mitems().len() == self.items().len(),
            forall|i: int| 0 <= i < self.items().len() ==> f.ensures((self.items()[i],), #[trigger] r.mitems()[i]);

    // ::core::iter::Iterator::flat_map: the concatenation of what the closure yields for each element
    fn flat_map<U: IntoIter, F: Fn(Self::Item) -> U>(self, f: F) -> (r: FlatMap<U::Item>)
        requires forall|t: Self::Item| #[trigger] f.requires((t,)),
        ensures forall|g: spec_fn(Self::Item) -> Seq<U::Item>|
            (forall|t: Self::Item, u: U| #[trigger] f.ensures((t,), u) ==> u.into_items() == g(t))
            ==> r.fmitems() == #[trigger] sflat(self.items().map_values(g));

    // ::core::iter::Iterator::collect
    fn collect<B: FromIter<Self::Item>>(self) -> (r: B)
        ensures r.collected() == self.items();

    // ::core::iter::Iterator::chain
    fn chain<U: IntoIter<Item = Self::Item>>(self, other: U) -> (r: Chain<Self::Item>)
        ensures r.citems() == self.items() + other.into_items();

    // ::core::iter::Iterator::any
    fn any<P: Fn(Self::Item) -> bool>(&mut self, predicate: P) -> (r: bool)
        requires forall|t: Self::Item| #[trigger] predicate.requires((t,)),
        ensures forall|q: spec_fn(Self::Item) -> bool|
            ((forall|t: Self::Item| #[trigger] predicate.ensures((t,), true) ==> q(t)) && (forall|t: Self::Item| #[trigger] predicate.ensures((t,), false) ==> !q(t)))
            ==> r == (#[trigger] first(old(self).items(), q) is Some);

    // ::core::iter::Iterator::all
    fn all<P: Fn(Self::Item) -> bool>(&mut self, predicate: P) -> (r: bool)
        requires forall|t: Self::Item| #[trigger] predicate.requires((t,)),
        ensures forall|q: spec_fn(Self::Item) -> bool|
            ((forall|t: Self::Item| #[trigger] predicate.ensures((t,), true) ==> q(t)) && (forall|t: Self::Item| #[trigger] predicate.ensures((t,), false) ==> !q(t)))
            ==> r == #[trigger] sall(old(self).items(), q);
}

} // verus!

// every iterator type of the model gets the same assumed method bodies
macro_rules! assumed_iterator {
    ([$($gen:tt)*] $ty:ty, $item:ty, |$s:ident| $items:expr) => { verus! {
        impl<$($gen)*> Iterator for $ty {
            type Item = $item;
            open spec fn items(&self) -> Seq<$item> { let $s = self; $items }
            #[verifier::external_body]
            fn find<P: Fn(&Self::Item) -> bool>(&mut self, predicate: P) -> (r: Option<Self::Item>) { unimplemented!() }
            #[verifier::external_body]
            fn filter<P: Fn(&Self::Item) -> bool>(self, predicate: P) -> (r: Filter<Self::Item, P>) { unimplemented!() }
            #[verifier::external_body]
            fn map<B, F: Fn(Self::Item) -> B>(self, f: F) -> (r: Map<B, F>) { unimplemented!() }
            #[verifier::external_body]
            fn flat_map<U: IntoIter, F: Fn(Self::Item) -> U>(self, f: F) -> (r: FlatMap<U::Item>) { unimplemented!() }
            #[verifier::external_body]
            fn collect<B: FromIter<Self::Item>>(self) -> (r: B) { unimplemented!() }
            #[verifier::external_body]
            fn chain<U: IntoIter<Item = Self::Item>>(self, other: U) -> (r: Chain<Self::Item>) { unimplemented!() }
            #[verifier::external_body]
            fn any<P: Fn(Self::Item) -> bool>(&mut self, predicate: P) -> (r: bool) { unimplemented!() }
            #[verifier::external_body]
            fn all<P: Fn(Self::Item) -> bool>(&mut self, predicate: P) -> (r: bool) { unimplemented!() }
        }
        impl<$($gen)*> IntoIter for $ty {
            type Item = $item;
            open spec fn into_items(&self) -> Seq<$item> { let $s = self; $items }
        }
    } };
}

verus! {

#[verifier::external_body]
#[verifier::reject_recursive_types(T)]
#[verifier::reject_recursive_types(P)]
pub struct Filter<T, P> { _p: ::core::marker::PhantomData<(T, P)> }
impl<T, P> Filter<T, P> { pub uninterp spec fn fitems(&self) -> Seq<T>; }

#[verifier::external_body]
#[verifier::reject_recursive_types(T)]
#[verifier::reject_recursive_types(F)]
pub struct Map<T, F> { _p: ::core::marker::PhantomData<(T, F)> }
impl<T, F> Map<T, F> { pub uninterp spec fn mitems(&self) -> Seq<T>; }

#[verifier::external_body]
#[verifier::reject_recursive_types(T)]
pub struct FlatMap<T> { _p: ::core::marker::PhantomData<T> }
impl<T> FlatMap<T> { pub uninterp spec fn fmitems(&self) -> Seq<T>; }

#[verifier::external_body]
#[verifier::reject_recursive_types(T)]
pub struct Chain<T> { _p: ::core::marker::PhantomData<T> }
impl<T> Chain<T> { pub uninterp spec fn citems(&self) -> Seq<T>; }

#[verifier::external_body]
#[verifier::reject_recursive_types(T)]
pub struct Empty<T> { _p: ::core::marker::PhantomData<T> }

} // verus!

assumed_iterator!([T] Chain<T>, T, |s| s.citems());
assumed_iterator!([T] Empty<T>, T, |s| Seq::<T>::empty());
assumed_iterator!(['a, T] Iter<'a, T>, &'a T, |s| refs(s.view()));
assumed_iterator!([T, P0] Filter<T, P0>, T, |s| s.fitems());
assumed_iterator!([T, F0] Map<T, F0>, T, |s| s.mitems());
assumed_iterator!([T] FlatMap<T>, T, |s| s.fmitems());

verus! {

impl<'a, T, P> IntoIter for &'a Punctuated<T, P> {
    type Item = &'a T;
    open spec fn into_items(&self) -> Seq<&'a T> { refs(self.pseq()) }
}
// p[i]
impl<T, P> ::vstd::std_specs::core::IndexSpecImpl<usize> for Punctuated<T, P> {
    open spec fn index_req(&self, index: &usize) -> bool { *index < self.pseq().len() }
}
impl<T, P> ::core::ops::Index<usize> for Punctuated<T, P> {
    type Output = T;
    #[verifier::external_body]
    fn index(&self, index: usize) -> (r: &T)
        ensures *r == self.pseq()[index as int],
    { unimplemented!() }
}
impl<T, P> Punctuated<T, P> {
    #[verifier::external_body]
    pub fn iter<'a>(&'a self) -> (r: Iter<'a, T>)
        ensures r@ == self.pseq(), r.items() == refs(self.pseq()),
    { unimplemented!() }
}
impl<T> IntoIter for Vec<T> {
    type Item = T;
    open spec fn into_items(&self) -> Seq<T> { self@ }
}
impl<T> FromIter<T> for Vec<T> {
    open spec fn collected(&self) -> Seq<T> { self@ }
}

// ---------------------------------------------------------------- Option::iter (ASSUMED contract on ::core::option)
#[verifier::external_type_specification]
#[verifier::external_body]
#[verifier::reject_recursive_types(T)]
pub struct ExOptionIter<'a, T: 'a>(::core::option::Iter<'a, T>);

pub uninterp spec fn opt_iter_items<'a, T>(it: ::core::option::Iter<'a, T>) -> Seq<&'a T>;

pub assume_specification<'a, T> [::core::option::Option::<T>::iter] (o: &'a Option<T>) -> (r: ::core::option::Iter<'a, T>)
    ensures opt_iter_items(r) == (match *o { Some(v) => seq![&v], None => Seq::<&T>::empty() });

} // verus!
assumed_iterator!(['a, T] ::core::option::Iter<'a, T>, &'a T, |s| opt_iter_items(*s));
verus! {

// ---------------------------------------------------------------- Peekable (ASSUMED contracts on ::core::iter::Peekable)
#[verifier::external_body]
#[verifier::reject_recursive_types(I)]
pub struct Peekable<I> { _p: ::core::marker::PhantomData<I> }

impl<I: Iterator> Peekable<I> {
    // the elements still to be yielded
    pub uninterp spec fn pitems(&self) -> Seq<I::Item>;

    #[verifier::external_body]
    pub fn peek(&mut self) -> (r: Option<&I::Item>)
        ensures
            final(self).pitems() == old(self).pitems(),
            old(self).pitems().len() == 0 ==> r is None,
            old(self).pitems().len() > 0 ==> r == Some(&old(self).pitems()[0]),
    { unimplemented!() }

    #[verifier::external_body]
    pub fn next(&mut self) -> (r: Option<I::Item>)
        ensures
            old(self).pitems().len() == 0 ==> (r is None && final(self).pitems() == old(self).pitems()),
            old(self).pitems().len() > 0 ==> (r == Some(old(self).pitems()[0]) && final(self).pitems() == old(self).pitems().drop_first()),
    { unimplemented!() }
}

impl<'a, T> Iter<'a, T> {
    #[verifier::external_body]
    pub fn peekable(self) -> (r: Peekable<Iter<'a, T>>)
        ensures r.pitems() == refs(self@),
    { unimplemented!() }
}

// an iterator of token streams under quote's `#(#v)*`
impl<F> RepToTokens for Map<TokenStream, F> {
    open spec fn rep_toks(&self) -> Seq<Seq<Tok>> { toks_of(self.mitems()) }
}

// Vec<TokenStream> under quote's `#(#v)*`
pub open spec fn toks_of(s: Seq<TokenStream>) -> Seq<Seq<Tok>> { s.map_values(|t: TokenStream| t@) }

impl TokenStream {
    // FromIterator<TokenStream> for TokenStream (ASSUMED): concatenation of the streams
    #[verifier::external_body]
    pub fn from_iter<I: IntoIter<Item = TokenStream>>(iter: I) -> (r: TokenStream)
        ensures r@ == flat(toks_of(iter.into_items())),
    { unimplemented!() }
}

impl RepToTokens for Vec<TokenStream> {
    open spec fn rep_toks(&self) -> Seq<Seq<Tok>> { toks_of(self@) }
}

} // verus!

macro_rules! vec {
    () => { Vec::new() };
}

// proved facts about flat / toks_of (not assumptions)
pub mod flat_lemmas {
    use super::*;
    verus! {
    pub broadcast proof fn lemma_toks_of_push(s: Seq<TokenStream>, t: TokenStream)
        ensures #[trigger] toks_of(s.push(t)) == toks_of(s).push(t@),
    { assert(toks_of(s.push(t)) =~= toks_of(s).push(t@)); }

    pub broadcast proof fn lemma_flat_concat(a: Seq<Seq<Tok>>, b: Seq<Seq<Tok>>)
        ensures #[trigger] flat(a + b) == flat(a) + flat(b),
        decreases a.len(),
    {
        if a.len() == 0 {
            assert(a + b =~= b);
            assert(flat(a) + flat(b) =~= flat(b));
        } else {
            assert((a + b).drop_first() =~= a.drop_first() + b);
            lemma_flat_concat(a.drop_first(), b);
            assert(flat(a + b) =~= flat(a) + flat(b));
        }
    }

    pub broadcast proof fn lemma_flat_push(s: Seq<Seq<Tok>>, x: Seq<Tok>)
        ensures #[trigger] flat(s.push(x)) == flat(s) + x,
    {
        assert(s.push(x) =~= s + seq![x]);
        lemma_flat_concat(s, seq![x]);
        assert(seq![x].drop_first() =~= Seq::<Seq<Tok>>::empty());
        assert(flat(Seq::<Seq<Tok>>::empty()) =~= Seq::<Tok>::empty());
        assert(seq![x][0] == x);
        assert(flat(seq![x]) =~= x + flat(seq![x].drop_first()));
        assert(flat(seq![x]) =~= x);
    }

    pub broadcast proof fn lemma_flat_singleton(x: Seq<Tok>)
        ensures #[trigger] flat(seq![x]) == x,
    {
        assert(seq![x].drop_first() =~= Seq::<Seq<Tok>>::empty());
        assert(flat(Seq::<Seq<Tok>>::empty()) =~= Seq::<Tok>::empty());
        assert(seq![x][0] == x);
        assert(flat(seq![x]) =~= x + flat(seq![x].drop_first()));
        assert(flat(seq![x]) =~= x);
    }

    pub broadcast proof fn lemma_flat_empty()
        ensures #[trigger] flat(Seq::<Seq<Tok>>::empty()) == Seq::<Tok>::empty(),
    {}

    pub broadcast proof fn lemma_toks_of_empty()
        ensures #[trigger] toks_of(Seq::<TokenStream>::empty()) == Seq::<Seq<Tok>>::empty(),
    { assert(toks_of(Seq::<TokenStream>::empty()) =~= Seq::<Seq<Tok>>::empty()); }

    pub broadcast proof fn lemma_add_empty_left<A>(a: Seq<A>)
        ensures #[trigger] (Seq::<A>::empty() + a) == a,
    { assert((Seq::<A>::empty() + a) =~= a); }

    pub broadcast proof fn lemma_add_empty_right<A>(a: Seq<A>)
        ensures #[trigger] (a + Seq::<A>::empty()) == a,
    { assert((a + Seq::<A>::empty()) =~= a); }

    pub broadcast proof fn lemma_sflat_singleton<A>(x: Seq<A>)
        ensures #[trigger] sflat(seq![x]) == x,
    {
        assert(seq![x].drop_first() =~= Seq::<Seq<A>>::empty());
        assert(sflat(Seq::<Seq<A>>::empty()) =~= Seq::<A>::empty());
        assert(seq![x][0] == x);
        assert(sflat(seq![x]) =~= x + sflat(seq![x].drop_first()));
        assert(sflat(seq![x]) =~= x);
    }

    pub broadcast proof fn lemma_sflat_empty<A>()
        ensures #[trigger] sflat(Seq::<Seq<A>>::empty()) == Seq::<A>::empty(),
    {}

    pub broadcast proof fn lemma_map_values_singleton<A, B>(x: A, g: spec_fn(A) -> B)
        ensures #[trigger] seq![x].map_values(g) == seq![g(x)],
    { assert(seq![x].map_values(g) =~= seq![g(x)]); }

    pub broadcast proof fn lemma_map_values_empty<A, B>(g: spec_fn(A) -> B)
        ensures #[trigger] Seq::<A>::empty().map_values(g) == Seq::<B>::empty(),
    { assert(Seq::<A>::empty().map_values(g) =~= Seq::<B>::empty()); }

    // pointwise equal views: the token sequences of a list of streams
    pub broadcast proof fn lemma_toks_of_pointwise(s: Seq<TokenStream>, t: Seq<Seq<Tok>>)
        requires s.len() == t.len(), forall|i: int| 0 <= i < s.len() ==> (#[trigger] s[i])@ == t[i],
        ensures #![trigger toks_of(s), flat(t)] toks_of(s) == t,
    { assert(toks_of(s) =~= t); }

    pub broadcast proof fn lemma_toks_of_concat(a: Seq<TokenStream>, b: Seq<TokenStream>)
        ensures #[trigger] toks_of(a + b) == toks_of(a) + toks_of(b),
    { assert(toks_of(a + b) =~= toks_of(a) + toks_of(b)); }

    pub broadcast proof fn lemma_sfilter_satisfies<A>(s: Seq<A>, q: spec_fn(A) -> bool, i: int)
        requires 0 <= i < sfilter(s, q).len(),
        ensures q(#[trigger] sfilter(s, q)[i]),
        decreases s.len(),
    {
        if s.len() > 0 {
            let rest = sfilter(s.drop_first(), q);
            if q(s[0]) {
                assert(sfilter(s, q) == seq![s[0]] + rest);
                if i > 0 {
                    assert(sfilter(s, q)[i] == rest[i - 1]);
                    lemma_sfilter_satisfies(s.drop_first(), q, i - 1);
                }
            } else {
                lemma_sfilter_satisfies(s.drop_first(), q, i);
            }
        }
    }

    pub broadcast proof fn lemma_sfilter_member<A>(s: Seq<A>, q: spec_fn(A) -> bool, i: int)
        requires 0 <= i < sfilter(s, q).len(),
        ensures exists|j: int| 0 <= j < s.len() && s[j] == #[trigger] sfilter(s, q)[i],
        decreases s.len(),
    {
        if s.len() > 0 {
            let rest = sfilter(s.drop_first(), q);
            if q(s[0]) {
                assert(sfilter(s, q) == seq![s[0]] + rest);
                if i > 0 {
                    assert(sfilter(s, q)[i] == rest[i - 1]);
                    lemma_sfilter_member(s.drop_first(), q, i - 1);
                    let j = choose|j: int| 0 <= j < s.drop_first().len() && s.drop_first()[j] == rest[i - 1];
                    assert(s[j + 1] == sfilter(s, q)[i]);
                } else {
                    assert(s[0] == sfilter(s, q)[0]);
                }
            } else {
                lemma_sfilter_member(s.drop_first(), q, i);
                let j = choose|j: int| 0 <= j < s.drop_first().len() && s.drop_first()[j] == rest[i];
                assert(s[j + 1] == sfilter(s, q)[i]);
            }
        }
    }

    pub broadcast group group_seq { lemma_sfilter_satisfies, lemma_sfilter_member, lemma_add_empty_left, lemma_add_empty_right, lemma_sflat_singleton, lemma_sflat_empty, lemma_map_values_singleton, lemma_map_values_empty }

    pub broadcast group group_flat { lemma_toks_of_pointwise, lemma_toks_of_concat, lemma_toks_of_push, lemma_flat_concat, lemma_flat_push, lemma_flat_singleton, lemma_flat_empty, lemma_toks_of_empty }
    }
}

// `std::iter::empty()` as written in the real code resolves here (the model's iterators, not core::iter)
pub mod std {
    pub mod iter {
        use super::super::*;
        verus! {
        #[verifier::external_body]
        pub fn empty<T>() -> (r: Empty<T>) { unimplemented!() }
        }
    }
}

// MODELLING CHOICE: a TokenStream value is its token sequence (specs never observe anything else of it)
pub mod ts_axioms {
    use super::*;
    verus! {
    pub broadcast axiom fn axiom_token_stream_is_its_tokens(a: TokenStream, b: TokenStream)
        ensures (#[trigger] a@ == #[trigger] b@) ==> a == b;
    }
}
