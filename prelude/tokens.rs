// ---- token model (trusted base) ----
verus! {

pub enum Delimiter { Parenthesis, Brace, Bracket, None }

pub enum Tok {
    Id(Seq<char>),
    P(Seq<char>),
    Lt(Seq<char>),
    Other(Seq<char>),
    Open(Delimiter),
    Close(Delimiter),
    Int(int),
}

pub type Toks = Seq<Tok>;

pub open spec fn id(s: &str) -> Toks { seq![Tok::Id(s@)] }
pub open spec fn p(s: &str) -> Toks { seq![Tok::P(s@)] }
pub open spec fn lt(s: &str) -> Toks { seq![Tok::Lt(s@)] }
pub open spec fn grp(d: Delimiter, inner: Toks) -> Toks { seq![Tok::Open(d)] + inner + seq![Tok::Close(d)] }
pub open spec fn paren(inner: Toks) -> Toks { grp(Delimiter::Parenthesis, inner) }
pub open spec fn brace(inner: Toks) -> Toks { grp(Delimiter::Brace, inner) }
pub open spec fn bracket(inner: Toks) -> Toks { grp(Delimiter::Bracket, inner) }
pub open spec fn nil() -> Toks { Seq::<Tok>::empty() }

#[verifier::external_body]
pub struct TokenStream { _p: ::core::marker::PhantomData<()> }

impl View for TokenStream {
    type V = Seq<Tok>;
    uninterp spec fn view(&self) -> Seq<Tok>;
}

impl TokenStream {
    #[verifier::external_body]
    pub fn new() -> (r: TokenStream)
        ensures r@ =~= nil(),
    { unimplemented!() }
}

impl Clone for TokenStream {
    #[verifier::external_body]
    fn clone(&self) -> (r: TokenStream)
        ensures r@ == self@,
    { unimplemented!() }
}

pub trait ToTokens {
    spec fn toks(&self) -> Seq<Tok>;

    fn to_tokens(&self, tokens: &mut TokenStream)
        ensures final(tokens)@ == old(tokens)@ + self.toks();

    fn to_token_stream(&self) -> (r: TokenStream)
        ensures r@ == self.toks();
}

impl ToTokens for TokenStream {
    open spec fn toks(&self) -> Seq<Tok> { self@ }
    #[verifier::external_body]
    fn to_tokens(&self, tokens: &mut TokenStream) { unimplemented!() }
    #[verifier::external_body]
    fn to_token_stream(&self) -> (r: TokenStream) { unimplemented!() }
}

impl<T: ToTokens> ToTokens for Option<T> {
    open spec fn toks(&self) -> Seq<Tok> {
        match self { Some(t) => t.toks(), None => nil() }
    }
    #[verifier::external_body]
    fn to_tokens(&self, tokens: &mut TokenStream) { unimplemented!() }
    #[verifier::external_body]
    fn to_token_stream(&self) -> (r: TokenStream) { unimplemented!() }
}

impl<'a, T: ToTokens + ?Sized> ToTokens for &'a T {
    open spec fn toks(&self) -> Seq<Tok> { (**self).toks() }
    #[verifier::external_body]
    fn to_tokens(&self, tokens: &mut TokenStream) { unimplemented!() }
    #[verifier::external_body]
    fn to_token_stream(&self) -> (r: TokenStream) { unimplemented!() }
}

} // verus!

pub mod __private {
    pub use ::core::stringify;
    pub use super::__private_rep::push_all;
    pub use super::TokenStream;
    pub use super::Delimiter;
    use super::*;
    verus! {
    #[verifier::external_body]
    pub fn push_ident(tokens: &mut TokenStream, s: &str)
        ensures final(tokens)@ == old(tokens)@ + id(s),
    { unimplemented!() }
    #[verifier::external_body]
    pub fn push_lifetime(tokens: &mut TokenStream, s: &str)
        ensures final(tokens)@ == old(tokens)@ + lt(s),
    { unimplemented!() }
    #[verifier::external_body]
    pub fn parse(tokens: &mut TokenStream, s: &str)
        ensures final(tokens)@ == old(tokens)@ + seq![Tok::Other(s@)],
    { unimplemented!() }
    #[verifier::external_body]
    pub fn push_group(tokens: &mut TokenStream, delimiter: Delimiter, inner: TokenStream)
        ensures final(tokens)@ == old(tokens)@ + grp(delimiter, inner@),
    { unimplemented!() }
    }
    macro_rules! push_punct {
        ($($name:ident $s:literal)*) => { verus! { $(
            #[verifier::external_body]
            pub fn $name(tokens: &mut TokenStream)
                ensures final(tokens)@ == old(tokens)@ + p($s),
            { unimplemented!() }
        )* } };
    }
    push_punct! {
        push_add "+" push_add_eq "+=" push_and "&" push_and_and "&&" push_and_eq "&=" push_at "@" push_bang "!"
        push_caret "^" push_caret_eq "^=" push_colon ":" push_colon2 "::" push_comma "," push_div "/" push_div_eq "/="
        push_dot "." push_dot2 ".." push_dot3 "..." push_dot_dot_eq "..=" push_eq "=" push_eq_eq "==" push_ge ">="
        push_gt ">" push_le "<=" push_lt "<" push_mul_eq "*=" push_ne "!=" push_or "|" push_or_eq "|=" push_or_or "||"
        push_pound "#" push_question "?" push_rarrow "->" push_larrow "<-" push_rem "%" push_rem_eq "%=" push_fat_arrow "=>"
        push_semi ";" push_shl "<<" push_shl_eq "<<=" push_shr ">>" push_shr_eq ">>=" push_star "*" push_sub "-" push_sub_eq "-="
        push_underscore "_"
    }
}

// ---- [verif model] quote's single-variable repetition `#(#v)*` ----
verus! {
// concatenation of a sequence of token sequences
pub open spec fn flat(s: Seq<Seq<Tok>>) -> Seq<Tok>
    decreases s.len(),
{
    if s.len() == 0 { Seq::<Tok>::empty() } else { s[0] + flat(s.drop_first()) }
}

pub trait RepToTokens {
    // the token sequences of the elements, in iteration order
    spec fn rep_toks(&self) -> Seq<Seq<Tok>>;
}
}
pub mod __private_rep {
    use super::*;
    verus! {
    #[verifier::external_body]
    pub fn push_all<T: RepToTokens>(tokens: &mut TokenStream, v: &T)
        ensures final(tokens)@ == old(tokens)@ + flat(v.rep_toks()),
    { unimplemented!() }
    }
}
